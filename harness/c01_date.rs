//@ attach src/date.rs
//! C01 - day numbers <-> (year, month, day) is the proleptic Gregorian bijection.
//! Induction over the day number: base + step + inverse, each discharged by the solver
//! for every day number of a 400-year chunk (25 chunks cover the whole range).
#![allow(dead_code, unused_imports)]
use super::*;
#[cfg(not(kani))]
use crate::verif_support::kani;
use crate::verif_support::*;
use crate::{Date, Error, WeekDay};

fn any_day(lo: i32, hi: i32) -> i32 {
    let n: i32 = kani::any();
    kani::assume(n >= lo && n <= hi);
    n
}

//@ unit c01_base prop=C01 bound="the three anchor day numbers 0, MIN, MAX (concrete)"
fn c01_base() {
    let d0 = Date::try_from_days(0).unwrap();
    assert!(d0.extract() == (1970, 1, 1));
    assert!(d0.day_of_week() as u32 == 5); // Thursday, Sunday = 1
    assert!(matches!(d0.day_of_week(), WeekDay::Thursday));
    let dmin = Date::try_from_days(DAY_MIN).unwrap();
    assert!(dmin.extract() == (1, 1, 1));
    assert!(Date::MIN.days() == DAY_MIN);
    let dmax = Date::try_from_days(DAY_MAX).unwrap();
    assert!(dmax.extract() == (9999, 12, 31));
    assert!(Date::MAX.days() == DAY_MAX);
    kani::cover!(true);
}

//@ unit c01_step prop=C01 chunks=c400 bound="every day number n in the chunk, n < MAX: extract(n+1) is the calendar successor of extract(n)"
fn c01_step(lo: i32, hi: i32) {
    let n = any_day(lo, if hi >= DAY_MAX { DAY_MAX - 1 } else { hi });
    let a = Date::try_from_days(n).unwrap();
    let b = Date::try_from_days(n + 1).unwrap();
    let (y, m, d) = a.extract();
    assert!(o_valid_ymd(y, m, d));
    let s = o_succ(y, m, d);
    assert!(b.extract() == s);
    // weekday advances by one each day, Saturday wraps to Sunday
    let wa = a.day_of_week() as u32;
    let wb = b.day_of_week() as u32;
    assert!(wa >= 1 && wa <= 7);
    assert!(wb == wa % 7 + 1);
    assert!(wa == o_weekday(n));
    // order of the newtype follows the day number
    assert!(a < b && a != b && b > a);
    kani::cover!(d == 29 && m == 2);
    kani::cover!(m == 12 && d == 31);
    kani::cover!(wa == 7);
}

//@ unit c01_inverse prop=C01 chunks=c400 bound="every day number n in the chunk: try_from_ymd(extract(n)) == Ok(n)"
fn c01_inverse(lo: i32, hi: i32) {
    let n = any_day(lo, hi);
    let a = Date::try_from_days(n).unwrap();
    assert!(a.days() == n);
    let (y, m, d) = a.extract();
    assert!(Date::is_valid(y, m, d));
    match Date::try_from_ymd(y, m, d) {
        Ok(b) => {
            assert!(b.days() == n);
            assert!(b == a);
        }
        Err(_) => assert!(false),
    }
    kani::cover!(m == 2 && d == 29);
    kani::cover!(n == lo);
    kani::cover!(n == hi);
}

//@ unit c01_accept q23=1 prop=C01,C02 bound="every (i32 year, u32 month, u32 day) triple - 2^96 triples"
fn c01_accept() {
    let y: i32 = kani::any();
    let m: u32 = kani::any();
    let d: u32 = kani::any();
    let r = Date::try_from_ymd(y, m, d);
    let v = Date::validate_ymd(y, m, d);
    let ok = Date::is_valid(y, m, d);
    if o_valid_ymd(y, m, d) {
        assert!(ok);
        assert!(v.is_ok());
        match r {
            Ok(x) => {
                assert!(x.days() >= DAY_MIN && x.days() <= DAY_MAX);
                kani::cover!(m == 2 && d == 29);
            }
            Err(_) => assert!(false),
        }
    } else {
        assert!(!ok);
        // error precedence: year range, month, day 1..=31, date not valid for month
        if y < 1 || y > 9999 {
            assert!(matches!(r, Err(Error::DateOutOfRange)));
            assert!(matches!(v, Err(Error::DateOutOfRange)));
            kani::cover!(y == 0);
            kani::cover!(y == 10000);
        } else if m < 1 || m > 12 {
            assert!(matches!(r, Err(Error::InvalidMonth)));
            assert!(matches!(v, Err(Error::InvalidMonth)));
            kani::cover!(m == 13);
        } else if d < 1 || d > 31 {
            assert!(matches!(r, Err(Error::InvalidDay)));
            assert!(matches!(v, Err(Error::InvalidDay)));
            kani::cover!(d == 0);
        } else {
            assert!(matches!(r, Err(Error::InvalidDate)));
            assert!(matches!(v, Err(Error::InvalidDate)));
            kani::cover!(m == 2 && d == 29);
            kani::cover!(d == 31);
        }
    }
}

//@ unit c01_from_days q23=1 prop=C01,C02 bound="every i32 day number"
fn c01_from_days() {
    let n: i32 = kani::any();
    let r = Date::try_from_days(n);
    if n >= DAY_MIN && n <= DAY_MAX {
        match r {
            Ok(x) => assert!(x.days() == n),
            Err(_) => assert!(false),
        }
        kani::cover!(n == DAY_MIN);
        kani::cover!(n == DAY_MAX);
    } else {
        assert!(matches!(r, Err(Error::DateOutOfRange)));
        kani::cover!(n == DAY_MIN - 1);
        kani::cover!(n == DAY_MAX + 1);
        kani::cover!(n == i32::MIN);
        kani::cover!(n == i32::MAX);
    }
}

//@ unit c01_order prop=C01 tier=thorough timeout=1800 bound="every pair of real dates in years 1..=9999 (forward conversion only)"
fn c01_order() {
    let a = any_ymd(1, 9999);
    let b = any_ymd(1, 9999);
    let da = Date::try_from_ymd(a.0, a.1, a.2).unwrap();
    let db = Date::try_from_ymd(b.0, b.1, b.2).unwrap();
    assert!((da < db) == o_lt(a, b));
    assert!((da == db) == (a == b));
    assert!((da > db) == o_lt(b, a));
    assert!(da.cmp(&db) == da.days().cmp(&db.days()));
    kani::cover!(da < db);
    kani::cover!(da == db);
}
