//@ attach src/serialize.rs
//! C15 - serialization round trips through a transparent in-harness Serializer/Deserializer pair
//! (the wire formats serde_json/bincode are environment and trusted to be transparent): the
//! crate's Serialize/Deserialize impls, visitors, static formatters and the 32-byte stack buffer
//! are the code under test.
#![allow(dead_code, unused_imports)]
use super::*;
#[cfg(not(kani))]
use crate::verif_support::kani;
use crate::verif_support::*;
use crate::OracleDate;
use serde_crate::ser::Impossible;
use std::fmt::Display;

#[derive(Debug)]
pub struct SErr;
impl Display for SErr {
    fn fmt(&self, _: &mut fmt::Formatter) -> fmt::Result {
        Ok(())
    }
}
impl std::error::Error for SErr {}
impl ser::Error for SErr {
    fn custom<T: Display>(_: T) -> Self {
        SErr
    }
}
impl de::Error for SErr {
    fn custom<T: Display>(_: T) -> Self {
        SErr
    }
}

pub enum Out {
    I32(i32),
    I64(i64),
    Str([u8; 32], usize),
}

/// Captures the single primitive the crate's Serialize impls emit.
pub struct Cap {
    hr: bool,
}

impl Serializer for Cap {
    type Ok = Out;
    type Error = SErr;
    type SerializeSeq = Impossible<Out, SErr>;
    type SerializeTuple = Impossible<Out, SErr>;
    type SerializeTupleStruct = Impossible<Out, SErr>;
    type SerializeTupleVariant = Impossible<Out, SErr>;
    type SerializeMap = Impossible<Out, SErr>;
    type SerializeStruct = Impossible<Out, SErr>;
    type SerializeStructVariant = Impossible<Out, SErr>;

    fn is_human_readable(&self) -> bool {
        self.hr
    }
    fn serialize_i32(self, v: i32) -> Result<Out, SErr> {
        Ok(Out::I32(v))
    }
    fn serialize_i64(self, v: i64) -> Result<Out, SErr> {
        Ok(Out::I64(v))
    }
    fn serialize_str(self, v: &str) -> Result<Out, SErr> {
        let b = v.as_bytes();
        if b.len() > 32 {
            return Err(SErr);
        }
        let mut a = [0u8; 32];
        let mut i = 0;
        while i < b.len() {
            a[i] = b[i];
            i += 1;
        }
        Ok(Out::Str(a, b.len()))
    }
    fn serialize_bool(self, _: bool) -> Result<Out, SErr> {
        Err(SErr)
    }
    fn serialize_i8(self, _: i8) -> Result<Out, SErr> {
        Err(SErr)
    }
    fn serialize_i16(self, _: i16) -> Result<Out, SErr> {
        Err(SErr)
    }
    fn serialize_u8(self, _: u8) -> Result<Out, SErr> {
        Err(SErr)
    }
    fn serialize_u16(self, _: u16) -> Result<Out, SErr> {
        Err(SErr)
    }
    fn serialize_u32(self, _: u32) -> Result<Out, SErr> {
        Err(SErr)
    }
    fn serialize_u64(self, _: u64) -> Result<Out, SErr> {
        Err(SErr)
    }
    fn serialize_f32(self, _: f32) -> Result<Out, SErr> {
        Err(SErr)
    }
    fn serialize_f64(self, _: f64) -> Result<Out, SErr> {
        Err(SErr)
    }
    fn serialize_char(self, _: char) -> Result<Out, SErr> {
        Err(SErr)
    }
    fn serialize_bytes(self, _: &[u8]) -> Result<Out, SErr> {
        Err(SErr)
    }
    fn serialize_none(self) -> Result<Out, SErr> {
        Err(SErr)
    }
    fn serialize_some<T: ?Sized + Serialize>(self, _: &T) -> Result<Out, SErr> {
        Err(SErr)
    }
    fn serialize_unit(self) -> Result<Out, SErr> {
        Err(SErr)
    }
    fn serialize_unit_struct(self, _: &'static str) -> Result<Out, SErr> {
        Err(SErr)
    }
    fn serialize_unit_variant(self, _: &'static str, _: u32, _: &'static str) -> Result<Out, SErr> {
        Err(SErr)
    }
    fn serialize_newtype_struct<T: ?Sized + Serialize>(self, _: &'static str, _: &T) -> Result<Out, SErr> {
        Err(SErr)
    }
    fn serialize_newtype_variant<T: ?Sized + Serialize>(self, _: &'static str, _: u32, _: &'static str, _: &T) -> Result<Out, SErr> {
        Err(SErr)
    }
    fn serialize_seq(self, _: Option<usize>) -> Result<Self::SerializeSeq, SErr> {
        Err(SErr)
    }
    fn serialize_tuple(self, _: usize) -> Result<Self::SerializeTuple, SErr> {
        Err(SErr)
    }
    fn serialize_tuple_struct(self, _: &'static str, _: usize) -> Result<Self::SerializeTupleStruct, SErr> {
        Err(SErr)
    }
    fn serialize_tuple_variant(self, _: &'static str, _: u32, _: &'static str, _: usize) -> Result<Self::SerializeTupleVariant, SErr> {
        Err(SErr)
    }
    fn serialize_map(self, _: Option<usize>) -> Result<Self::SerializeMap, SErr> {
        Err(SErr)
    }
    fn serialize_struct(self, _: &'static str, _: usize) -> Result<Self::SerializeStruct, SErr> {
        Err(SErr)
    }
    fn serialize_struct_variant(self, _: &'static str, _: u32, _: &'static str, _: usize) -> Result<Self::SerializeStructVariant, SErr> {
        Err(SErr)
    }
}

pub enum In<'a> {
    I32(i32),
    I64(i64),
    Str(&'a str),
}

/// Hands one payload to the visitor.
pub struct Feed<'a> {
    v: In<'a>,
    hr: bool,
}

impl<'de, 'a> Deserializer<'de> for Feed<'a> {
    type Error = SErr;
    fn deserialize_any<V: Visitor<'de>>(self, visitor: V) -> Result<V::Value, SErr> {
        match self.v {
            In::I32(x) => visitor.visit_i32(x),
            In::I64(x) => visitor.visit_i64(x),
            In::Str(s) => visitor.visit_str(s),
        }
    }
    fn is_human_readable(&self) -> bool {
        self.hr
    }
    serde_crate::forward_to_deserialize_any! {
        bool i8 i16 i32 i64 u8 u16 u32 u64 f32 f64 char str string bytes byte_buf option unit unit_struct
        newtype_struct seq tuple tuple_struct map struct enum identifier ignored_any
    }
}

/// Stub for once_cell's blocking initialiser (it reaches thread parking, which Kani cannot
/// compile): run the initialiser once and mark the cell complete.
pub fn stub_once_init(state: &std::sync::atomic::AtomicU8, init: &mut dyn FnMut() -> bool) {
    if init() {
        state.store(2, std::sync::atomic::Ordering::Release);
    }
}

macro_rules! bin_roundtrip {
    ($v:expr, $raw:expr, $ty:ty, $variant:ident) => {{
        let v = $v;
        match v.serialize(Cap { hr: false }) {
            Ok(Out::$variant(x)) => {
                assert!(x == $raw);
                match <$ty>::deserialize(Feed { v: In::$variant(x), hr: false }) {
                    Ok(b) => assert!(b == v),
                    Err(_) => assert!(false),
                }
            }
            _ => assert!(false),
        }
    }};
}

//@ unit c15_bin_roundtrip stubs=once_cell::imp::initialize_inner=>crate::serialize::verif_h_serde_rt::stub_once_init,crate::util::try_format=>crate::verif_support::stub_try_format,chrono::Local::now=>crate::verif_support::stub_local_now prop=C15,C03 mem=3 bound="every value of Date, Timestamp, Time, IntervalYM, IntervalDT (whole ranges): the binary form is the raw count and decodes to the same value"
fn c15_bin_roundtrip() {
    let n = any_i32_in(DAY_MIN, DAY_MAX);
    bin_roundtrip!(mk_date(n), n, Date, I32);
    let u = any_i64_in(TS_MIN, TS_MAX);
    bin_roundtrip!(mk_ts(u), u, Timestamp, I64);
    let t = any_tod();
    bin_roundtrip!(mk_time(t), t, Time, I64);
    let m = any_i32_in(-YM_MAX, YM_MAX);
    bin_roundtrip!(mk_ym(m), m, IntervalYM, I32);
    let i = any_i64_in(-DT_MAX, DT_MAX);
    bin_roundtrip!(mk_dt(i), i, IntervalDT, I64);
    kani::cover!(n == DAY_MAX && u == TS_MIN);
}

//@ unit c15_bin_roundtrip_od stubs=once_cell::imp::initialize_inner=>crate::serialize::verif_h_serde_rt::stub_once_init,crate::util::try_format=>crate::verif_support::stub_try_format,chrono::Local::now=>crate::verif_support::stub_local_now prop=C15,C03 mem=3 timeout=1200 bound="Oracle-style dates within +-2^12 seconds of the epoch (the whole-second gate is a 64-bit remainder; the whole range is decided by s15_binary_decode/s16_try_from_usecs): binary form = raw count, decodes to the same value"
fn c15_bin_roundtrip_od() {
    let k = any_i64_in(-(1 << 12), 1 << 12);
    let v = mk_od(k * 1_000_000);
    bin_roundtrip!(v, k * 1_000_000, OracleDate, I64);
    kani::cover!(k < 0);
}

macro_rules! bin_decode {
    ($payload:expr, $ty:ty, $variant:ident, $lo:expr, $hi:expr, $raw:ident) => {{
        let p = $payload;
        match <$ty>::deserialize(Feed { v: In::$variant(p), hr: false }) {
            Ok(b) => assert!(p >= $lo && p <= $hi && b.$raw() == p),
            Err(_) => assert!(p < $lo || p > $hi),
        }
    }};
}

//@ unit c15_bin_decode q23=1 stubs=once_cell::imp::initialize_inner=>crate::serialize::verif_h_serde_rt::stub_once_init,crate::util::try_format=>crate::verif_support::stub_try_format,chrono::Local::now=>crate::verif_support::stub_local_now prop=C15,C02,C03 mem=3 bound="every i32 / i64 payload handed to the binary visitors of Date, Timestamp, Time, IntervalYM, IntervalDT: Ok(v) iff the payload is inside the type's documented range, and then v has exactly that count"
fn c15_bin_decode() {
    let a: i32 = kani::any();
    let b: i64 = kani::any();
    bin_decode!(a, Date, I32, DAY_MIN, DAY_MAX, days);
    bin_decode!(b, Timestamp, I64, TS_MIN, TS_MAX, usecs);
    bin_decode!(b, Time, I64, 0, USECS_DAY - 1, usecs);
    bin_decode!(a, IntervalYM, I32, -YM_MAX, YM_MAX, months);
    bin_decode!(b, IntervalDT, I64, -DT_MAX, DT_MAX, usecs);
    kani::cover!(a == i32::MAX && b == i64::MIN);
    kani::cover!(a == DAY_MAX + 1);
}

//@ unit c15_wrong_kind stubs=once_cell::imp::initialize_inner=>crate::serialize::verif_h_serde_rt::stub_once_init,crate::util::try_format=>crate::verif_support::stub_try_format,chrono::Local::now=>crate::verif_support::stub_local_now prop=C15,C03 mem=3 bound="a payload of the wrong primitive kind (i64 where i32 is expected and vice versa) is an error, never a value"
fn c15_wrong_kind() {
    let a: i32 = kani::any();
    let b: i64 = kani::any();
    assert!(Date::deserialize(Feed { v: In::I64(b), hr: false }).is_err());
    assert!(IntervalYM::deserialize(Feed { v: In::I64(b), hr: false }).is_err());
    // serde's default visit_i32 widens to visit_i64: an i32 payload is a valid i64 count
    match Time::deserialize(Feed { v: In::I32(a), hr: false }) {
        Ok(t) => assert!(a >= 0 && t.usecs() == a as i64),
        Err(_) => assert!(a < 0),
    }
    kani::cover!(a > 0);
}

fn hr_bytes<T: Serialize>(v: &T) -> ([u8; 32], usize) {
    match v.serialize(Cap { hr: true }) {
        Ok(Out::Str(a, n)) => (a, n),
        _ => {
            assert!(false);
            ([0u8; 32], 0)
        }
    }
}

fn digit(b: u8) -> u32 {
    (b - b'0') as u32
}

//@ unit c15_hr_ym prop=C15,C06 tier=thorough unwind=14 mem=12 timeout=7200 stubs=once_cell::imp::initialize_inner=>crate::serialize::verif_h_serde_rt::stub_once_init,crate::util::try_format=>crate::verif_support::stub_try_format,chrono::Local::now=>crate::verif_support::stub_local_now bound="every year-month interval: the human-readable form is sign, years (at least 4 digits), '-', 2-digit months, fits 32 bytes, and decodes to the same value"
fn c15_hr_ym() {
    let m = any_i32_in(-YM_MAX, YM_MAX);
    let v = mk_ym(m);
    let (a, n) = hr_bytes(&v);
    assert!(n >= 8 && n <= 13);
    assert!(a[0] == if m < 0 { b'-' } else { b'+' });
    assert!(a[n - 3] == b'-');
    let mag = (m as i64).abs();
    assert!(digit(a[n - 2]) * 10 + digit(a[n - 1]) == (mag % 12) as u32);
    let text = unsafe { std::str::from_utf8_unchecked(&a[..n]) };
    match IntervalYM::deserialize(Feed { v: In::Str(text), hr: true }) {
        Ok(b) => assert!(b == v),
        Err(_) => assert!(false),
    }
    kani::cover!(m == -YM_MAX);
    kani::cover!(m == 13);
}

//@ unit s15_binary_decode prop=C15,C02,C03,C16 engine=smt chunks=range:0:5 quick=all bound="the binary visitor of the type given by the parameter (0 Date, 1 Timestamp, 2 Time, 3 IntervalYM, 4 IntervalDT, 5 OracleDate) for every integer payload: Ok(v) iff the payload is inside the documented range (and a whole second for the Oracle-style date), and then v has exactly that count"
fn s15_binary_decode(which: i64) {
    if which == 0 || which == 3 {
        let p: i32 = kani::any();
        if which == 0 {
            bin_decode!(p, Date, I32, DAY_MIN, DAY_MAX, days);
        } else {
            bin_decode!(p, IntervalYM, I32, -YM_MAX, YM_MAX, months);
        }
    } else {
        let p: i64 = kani::any();
        match which {
            1 => bin_decode!(p, Timestamp, I64, TS_MIN, TS_MAX, usecs),
            2 => bin_decode!(p, Time, I64, 0, USECS_DAY - 1, usecs),
            4 => bin_decode!(p, IntervalDT, I64, -DT_MAX, DT_MAX, usecs),
            _ => match OracleDate::deserialize(Feed { v: In::I64(p), hr: false }) {
                Ok(b) => assert!(p >= TS_MIN && p <= TS_MAX && p % 1_000_000 == 0 && b.usecs() == p),
                Err(_) => assert!(!(p >= TS_MIN && p <= TS_MAX && p % 1_000_000 == 0)),
            },
        }
    }
}
