//@ attach src/format.rs
//! C04 - formatting renders every field exactly as the picture specifies: one unit per type x
//! field kind with the value fully symbolic, compared byte for byte with a reference rendering
//! (digits by division, the English names spelled here, Sunday = 1, 7-day blocks from the 1st,
//! truncated fractions, one leading sign for intervals); plus short concatenations and the
//! inapplicable-field errors.  Values are drawn as fields and built with the crate's forward
//! constructors; the field *extraction* kernels (julian2date, the timestamp split, Time::extract,
//! IntervalDT::extract) are replaced by ghost stubs whose contracts are decided over the whole
//! range by the C01/C07/C13 SMT obligations (DESIGN.md 2.3).
#![allow(dead_code, unused_imports)]
use super::*;
#[cfg(not(kani))]
use crate::verif_support::kani;
use crate::verif_support::*;
use crate::{Date as SqlDate, IntervalDT, IntervalYM, OracleDate, Time, Timestamp};

// ---- ghosts for the time-of-day and interval decompositions ---------------------------------
pub static mut GHOST_TIME: (i64, u32, u32, u32, u32) = (i64::MIN, 0, 0, 0, 0);
pub static mut GHOST_DT: (i64, u32, u32, u32, u32, u32) = (i64::MIN, 0, 0, 0, 0, 0);

/// Any time of day, drawn as (h, m, s, us) and built by the crate's constructor.
pub fn ghost_time() -> (Time, (u32, u32, u32, u32)) {
    let h: u32 = kani::any();
    let mi: u32 = kani::any();
    let s: u32 = kani::any();
    let us: u32 = kani::any();
    kani::assume(h < 24 && mi < 60 && s < 60 && us < 1_000_000);
    let t = match Time::try_from_hms(h, mi, s, us) {
        Ok(t) => t,
        Err(_) => {
            assert!(false);
            Time::ZERO
        }
    };
    unsafe {
        GHOST_TIME = (t.usecs(), h, mi, s, us);
    }
    (t, (h, mi, s, us))
}

/// Stub for `Time::extract` (contract: s07_time_fields).
pub fn stub_time_extract(t: Time) -> (u32, u32, u32, u32) {
    unsafe {
        if t.usecs() == GHOST_TIME.0 {
            return (GHOST_TIME.1, GHOST_TIME.2, GHOST_TIME.3, GHOST_TIME.4);
        }
    }
    let h: u32 = kani::any();
    let mi: u32 = kani::any();
    let s: u32 = kani::any();
    let us: u32 = kani::any();
    kani::assume(h < 24 && mi < 60 && s < 60 && us < 1_000_000);
    kani::assume(h as i64 * 3_600_000_000 + mi as i64 * 60_000_000 + s as i64 * 1_000_000 + us as i64 == t.usecs());
    (h, mi, s, us)
}

/// Any day-time interval, drawn as sign and fields.
pub fn ghost_dt() -> (IntervalDT, (bool, u32, u32, u32, u32, u32)) {
    let neg: bool = kani::any();
    let d: u32 = kani::any();
    let h: u32 = kani::any();
    let mi: u32 = kani::any();
    let s: u32 = kani::any();
    let us: u32 = kani::any();
    kani::assume(IntervalDT::is_valid(d, h, mi, s, us));
    let v = match IntervalDT::try_from_dhms(d, h, mi, s, us) {
        Ok(v) => v,
        Err(_) => {
            assert!(false);
            IntervalDT::ZERO
        }
    };
    kani::assume(!(neg && v.usecs() == 0));
    let v = if neg { -v } else { v };
    unsafe {
        GHOST_DT = (v.usecs(), d, h, mi, s, us);
    }
    (v, (neg, d, h, mi, s, us))
}

/// Stub for `IntervalDT::extract` (contract: s13_dt).
pub fn stub_dt_extract(v: IntervalDT) -> (crate::Sign, u32, u32, u32, u32, u32) {
    let sign = if v.usecs() < 0 { crate::Sign::Negative } else { crate::Sign::Positive };
    unsafe {
        if v.usecs() == GHOST_DT.0 {
            return (sign, GHOST_DT.1, GHOST_DT.2, GHOST_DT.3, GHOST_DT.4, GHOST_DT.5);
        }
    }
    assert!(false); // no other interval is decomposed by these units
    (sign, 0, 0, 0, 0, 0)
}

fn one_field(f: Field) -> Formatter {
    let mut fields = StackVec::new();
    fields.push(f);
    Formatter {
        fields,
        format_exact: false,
    }
}

fn fields3(a: Field, b: Field, c: Field) -> Formatter {
    let mut fields = StackVec::new();
    fields.push(a);
    fields.push(b);
    fields.push(c);
    Formatter {
        fields,
        format_exact: false,
    }
}

// ---- reference rendering -------------------------------------------------------------------
// The output is checked in place, left to right, without any division: a number field must be
// exactly max(width, number of digits) decimal digits whose value (Horner, multiplications only) is
// the expected one; a word field must be the expected letters in the expected case.
pub struct Cur<'a> {
    b: &'a [u8],
    pos: usize,
    ok: bool,
}

fn ndigits(v: u32) -> usize {
    1 + (v >= 10) as usize
        + (v >= 100) as usize
        + (v >= 1_000) as usize
        + (v >= 10_000) as usize
        + (v >= 100_000) as usize
        + (v >= 1_000_000) as usize
        + (v >= 10_000_000) as usize
        + (v >= 100_000_000) as usize
        + (v >= 1_000_000_000) as usize
}

impl<'a> Cur<'a> {
    pub fn new(b: &'a [u8]) -> Self {
        Cur { b, pos: 0, ok: true }
    }
    fn byte(&mut self, c: u8) {
        if self.pos < self.b.len() && self.b[self.pos] == c {
            self.pos += 1;
        } else {
            self.ok = false;
        }
    }
    /// decimal digits of `v`, zero-padded to at least `width` (never truncated)
    pub fn num(&mut self, v: u32, width: usize) {
        let nd = ndigits(v);
        let len = if nd > width { nd } else { width };
        if self.pos + len > self.b.len() {
            self.ok = false;
            return;
        }
        let mut acc: u64 = 0;
        let mut i = 0;
        while i < len {
            let c = self.b[self.pos + i];
            if c < b'0' || c > b'9' {
                self.ok = false;
            }
            acc = acc * 10 + (c.wrapping_sub(b'0')) as u64;
            i += 1;
        }
        if acc != v as u64 {
            self.ok = false;
        }
        self.pos += len;
    }
    fn word(&mut self, w: &[u8], style: u8, abbr_len: usize) {
        // style: 0 Capital, 1 lower, 2 UPPER (+3 abbreviated); `w` is given in upper case
        let len = if style >= 3 { abbr_len } else { w.len() };
        let st = style % 3;
        let mut i = 0;
        while i < len {
            let c = w[i];
            self.byte(if st == 2 || (st == 0 && i == 0) { c } else { c + 32 });
            i += 1;
        }
    }
    pub fn done(&self) -> bool {
        self.ok && self.pos == self.b.len()
    }
}

const MONTHS_UP: [&[u8]; 12] = [
    b"JANUARY", b"FEBRUARY", b"MARCH", b"APRIL", b"MAY", b"JUNE", b"JULY", b"AUGUST", b"SEPTEMBER", b"OCTOBER",
    b"NOVEMBER", b"DECEMBER",
];
const DAYS_UP: [&[u8]; 7] = [b"SUNDAY", b"MONDAY", b"TUESDAY", b"WEDNESDAY", b"THURSDAY", b"FRIDAY", b"SATURDAY"];

fn name_style(s: u8) -> NameStyle {
    match s {
        0 => NameStyle::Capital,
        1 => NameStyle::Lower,
        2 => NameStyle::Upper,
        3 => NameStyle::AbbrCapital,
        4 => NameStyle::AbbrLower,
        _ => NameStyle::AbbrUpper,
    }
}

fn pow10(n: u32) -> u32 {
    match n {
        0 => 1,
        1 => 10,
        2 => 100,
        3 => 1000,
        _ => 10000,
    }
}

/// Date field kinds: 0..=3 Year(1..=4), 4 MM, 5 DD, 6 DDD, 7 D, 8 W, 9 WW, 10..=15 DAY styles,
/// 16..=21 MONTH styles.
fn date_field(kind: u8) -> Field {
    match kind {
        0..=3 => Field::Year(kind + 1),
        4 => Field::Month,
        5 => Field::Day,
        6 => Field::DayOfYear,
        7 => Field::DayOfWeek,
        8 => Field::WeekOfMonth,
        9 => Field::WeekOfYear,
        10..=15 => Field::DayName(name_style(kind - 10)),
        _ => Field::MonthName(name_style(kind - 16)),
    }
}

fn ref_date_field(r: &mut Cur, kind: u8, y: i32, m: u32, d: u32, wd: u32) {
    match kind {
        0..=3 => r.num(y as u32 % pow10(kind as u32 + 1), kind as usize + 1),
        4 => r.num(m, 2),
        5 => r.num(d, 2),
        6 => r.num(o_doy(y, m, d), 3),
        7 => r.num(wd, 1),
        8 => r.num((d - 1) / 7 + 1, 1),
        9 => r.num((o_doy(y, m, d) - 1) / 7 + 1, 2),
        10..=15 => r.word(DAYS_UP[(wd - 1) as usize], kind - 10, 3),
        _ => r.word(MONTHS_UP[(m - 1) as usize], kind - 16, 3),
    }
}

//@ unit c04_date_field prop=C04,C03 chunks=range:0:21 quick=all unwind=12 mem=3 timeout=1500 stubs=crate::util::try_format=>crate::verif_support::stub_try_format,crate::common::julian2date=>crate::verif_support::ghost_julian2date bound="Date: every real date 0001-01-01..9999-12-31 (as a triple), picture = the single date token given by the parameter (Y/YY/YYY/YYYY, MM, DD, DDD, D, W, WW, DAY and MONTH in six letter styles): output bytes equal the reference rendering"
fn c04_date_field(kind: u8) {
    let (x, (y, m, d)) = ghost_date(1, 9999);
    let wd = o_weekday(x.days());
    let fmt = one_field(date_field(kind));
    let mut sink: Sink<48> = Sink::new();
    let res = fmt.format(x, &mut sink);
    assert!(res.is_ok());
    let mut r = Cur::new(sink.bytes());
    ref_date_field(&mut r, kind, y, m, d, wd);
    assert!(r.done());
    kani::cover!(m == 9 && wd == 4);
    kani::cover!(m == 12 && d == 31);
    kani::cover!(y == 9999);
    std::mem::forget(fmt);
}

/// Time field kinds: 0 HH24, 1 HH12, 2 MI, 3 SS, 4..=7 meridian (AM, am, A.M., a.m.), 8 FF,
/// 9..=17 FF1..FF9.
fn time_field(kind: u8) -> Field {
    match kind {
        0 => Field::Hour24,
        1 => Field::Hour12,
        2 => Field::Minute,
        3 => Field::Second,
        4 => Field::AmPm(AmPmStyle::Upper),
        5 => Field::AmPm(AmPmStyle::Lower),
        6 => Field::AmPm(AmPmStyle::UpperDot),
        7 => Field::AmPm(AmPmStyle::LowerDot),
        8 => Field::Fraction(None),
        _ => Field::Fraction(Some(kind - 8)),
    }
}

fn ref_time_field(r: &mut Cur, kind: u8, h: u32, mi: u32, s: u32, us: u32) {
    match kind {
        0 => r.num(h, 2),
        1 => r.num(if h == 0 { 12 } else if h > 12 { h - 12 } else { h }, 2),
        2 => r.num(mi, 2),
        3 => r.num(s, 2),
        4..=7 => {
            let pm = h >= 12;
            let upper = kind == 4 || kind == 6;
            let dots = kind >= 6;
            let a = if pm { b'P' } else { b'A' };
            r.byte(if upper { a } else { a + 32 });
            if dots {
                r.byte(b'.');
            }
            r.byte(if upper { b'M' } else { b'm' });
            if dots {
                r.byte(b'.');
            }
        }
        _ => {
            // fraction truncated (not rounded) to p digits, 6 by default
            let p = if kind == 8 { 6 } else { (kind - 8) as u32 };
            let v = match p {
                1 => us / 100_000,
                2 => us / 10_000,
                3 => us / 1_000,
                4 => us / 100,
                5 => us / 10,
                6 => us,
                7 => us * 10,
                8 => us * 100,
                _ => us * 1000,
            };
            r.num(v, p as usize);
        }
    }
}

//@ unit c04_time_field prop=C04,C03 chunks=range:0:14/range:0:17 quick=all unwind=12 mem=3 timeout=1500/10800 stubs=crate::util::try_format=>crate::verif_support::stub_try_format,crate::time::Time::extract=>crate::format::verif_h_fmt_fields::stub_time_extract bound="Time: every time of day (h, m, s, us as fields - all 86.4e9 microseconds), picture = the single time token given by the parameter (HH24, HH12, MI, SS, AM/am/A.M./a.m., FF, FF1..FF6; FF7..FF9 - a float division by 0.1/0.01/0.001 - in the thorough tier only): output bytes equal the reference rendering (fractions truncated)"
fn c04_time_field(kind: u8) {
    let (t, (h, mi, s, us)) = ghost_time();
    let fmt = one_field(time_field(kind));
    let mut sink: Sink<48> = Sink::new();
    let res = fmt.format(t, &mut sink);
    assert!(res.is_ok());
    let mut r = Cur::new(sink.bytes());
    ref_time_field(&mut r, kind, h, mi, s, us);
    assert!(r.done());
    kani::cover!(h == 0);
    kani::cover!(h == 12);
    kani::cover!(us == 999_999 && h == 23);
    std::mem::forget(fmt);
}

//@ unit c04_ts_pair prop=C04,C03 chunks=tuples:3,0;5,8;16,2;6,12;9,1;7,5;13,3 quick=first:1 unwind=12 mem=8 timeout=2400 stubs=crate::util::try_format=>crate::verif_support::stub_try_format,crate::common::julian2date=>crate::verif_support::ghost_julian2date,crate::time::Time::extract=>crate::format::verif_h_fmt_fields::stub_time_extract,crate::timestamp::Timestamp::extract=>crate::verif_support::stub_ts_extract,crate::timestamp::Timestamp::date=>crate::verif_support::stub_ts_date,crate::timestamp::Timestamp::time=>crate::verif_support::stub_ts_time bound="Timestamp: every real date x every time of day, picture = date token (1st parameter), a symbolic punctuation or blank run of 1..=3, time token (2nd parameter): the output is the concatenation in picture order"
fn c04_ts_pair(dk: u8, tk: u8) {
    let (x, (y, m, d)) = ghost_date(1, 9999);
    let (t, (h, mi, s, us)) = ghost_time();
    let ts = ghost_ts(0, x, t.usecs());
    let wd = o_weekday(x.days());
    let pk: u8 = kani::any();
    kani::assume(pk < 10);
    let (pf, pb, pn): (Field, u8, usize) = match pk {
        0 => (Field::Hyphen, b'-', 1),
        1 => (Field::Colon, b':', 1),
        2 => (Field::Slash, b'/', 1),
        3 => (Field::Backslash, b'\\', 1),
        4 => (Field::Comma, b',', 1),
        5 => (Field::Dot, b'.', 1),
        6 => (Field::Semicolon, b';', 1),
        7 => (Field::T, b'T', 1),
        8 => (Field::Blank(1), b' ', 1),
        _ => (Field::Blank(3), b' ', 3),
    };
    let fmt = fields3(date_field(dk), pf, time_field(tk));
    let mut sink: Sink<48> = Sink::new();
    assert!(fmt.format(ts, &mut sink).is_ok());
    let mut r = Cur::new(sink.bytes());
    ref_date_field(&mut r, dk, y, m, d, wd);
    let mut k = 0;
    while k < pn {
        r.byte(pb);
        k += 1;
    }
    ref_time_field(&mut r, tk, h, mi, s, us);
    assert!(r.done());
    kani::cover!(pk == 9);
    kani::cover!(x.days() < 0 && us > 0);
    std::mem::forget(fmt);
}

//@ unit c04_interval_ym prop=C04,C03 chunks=ints:1/ints:1,0 quick=all unwind=14 mem=5 timeout=1500 stubs=crate::util::try_format=>crate::verif_support::stub_try_format bound="IntervalYM: every value (parameter 1 = quick tier: at most 9999 years), pictures YYYY (any of Y..YYYY), MM and YYYY-MM: one leading sign, years zero-padded to the token width (never truncated), 2-digit months"
fn c04_interval_ym(small: i32) {
    let v = if small == 1 { any_i32_in(-119_999, 119_999) } else { any_i32_in(-YM_MAX, YM_MAX) };
    let x = mk_ym(v);
    let mag = (v as i64).abs() as u32;
    let (yy, mm) = (mag / 12, mag % 12);
    let n: u8 = kani::any();
    kani::assume(n >= 1 && n <= 4);
    let fmt = fields3(Field::Year(n), Field::Hyphen, Field::Month);
    let mut sink: Sink<48> = Sink::new();
    assert!(fmt.format(x, &mut sink).is_ok());
    let mut r = Cur::new(sink.bytes());
    r.byte(if v < 0 { b'-' } else { b'+' });
    r.num(yy, n as usize);
    r.byte(b'-');
    r.num(mm, 2);
    assert!(r.done());
    kani::cover!(v < 0 && (yy >= 100_000_000 || small == 1));
    kani::cover!(v == 0);
    std::mem::forget(fmt);
}

//@ unit c04_interval_dt q23=1 prop=C04,C03 chunks=tuples:5,1;0,1/tuples:0,0;1,0;2,0;3,0;4,0;5,0;5,1;0,1 quick=all unwind=14 mem=6 timeout=1800 stubs=crate::util::try_format=>crate::verif_support::stub_try_format,crate::interval::IntervalDT::extract=>crate::format::verif_h_fmt_fields::stub_dt_extract bound="IntervalDT: every value (sign and fields), picture = DD then the token given by the first parameter; second parameter 1 restricts the day count to 0..=40 (quick tier), 0 = every value (0 none, 1 HH24, 2 MI, 3 SS, 4 FF, 5 FF3): one leading sign, days at least 2 digits, fields as for times"
fn c04_interval_dt(kind: u8, small: u8) {
    let (v, (neg, d, h, mi, s, us)) = ghost_dt();
    if small == 1 {
        // quick tier: day counts around the 2-digit table limit (the decimal fallback beyond 31
        // goes through core::fmt, which is what makes the unrestricted unit take 15-20 min)
        kani::assume(d <= 40);
    }
    let second = match kind {
        0 => Field::Blank(1),
        1 => Field::Hour24,
        2 => Field::Minute,
        3 => Field::Second,
        4 => Field::Fraction(None),
        _ => Field::Fraction(Some(3)),
    };
    let fmt = fields3(Field::Day, Field::Blank(1), second);
    let mut sink: Sink<48> = Sink::new();
    assert!(fmt.format(v, &mut sink).is_ok());
    let mut r = Cur::new(sink.bytes());
    r.byte(if neg { b'-' } else { b'+' });
    r.num(d, 2);
    r.byte(b' ');
    match kind {
        0 => r.byte(b' '),
        1 => r.num(h, 2),
        2 => r.num(mi, 2),
        3 => r.num(s, 2),
        4 => r.num(us, 6),
        _ => r.num(us / 1000, 3),
    }
    assert!(r.done());
    kani::cover!(neg && (d == 100_000_000 || small == 1));
    kani::cover!(d == 31);
    kani::cover!(d == 32);
    std::mem::forget(fmt);
}

fn is_format_err<T>(r: &Result<T>) -> bool {
    matches!(r, Err(Error::FormatError(_)))
}

//@ unit c04_inapplicable q23=1 prop=C04,C03 chunks=range:0:5 quick=all unwind=12 mem=6 timeout=1800 stubs=crate::util::try_format=>crate::verif_support::stub_try_format,crate::common::julian2date=>crate::verif_support::ghost_julian2date,crate::time::Time::extract=>crate::format::verif_h_fmt_fields::stub_time_extract,crate::timestamp::Timestamp::extract=>crate::verif_support::stub_ts_extract,crate::timestamp::Timestamp::date=>crate::verif_support::stub_ts_date,crate::timestamp::Timestamp::time=>crate::verif_support::stub_ts_time,crate::interval::IntervalDT::extract=>crate::format::verif_h_fmt_fields::stub_dt_extract bound="type = the parameter (0 Date, 1 Time, 2 Timestamp, 3 IntervalYM, 4 IntervalDT, 5 OracleDate) x every field kind (symbolic): a token that does not apply to the value's type yields Err(FormatError) and no panic; an applicable one yields Ok"
fn c04_inapplicable(ty: u8) {
    let which: u8 = kani::any();
    kani::assume(which < 40);
    let f = if which < 22 { date_field(which) } else { time_field(which - 22) };
    let is_date_kind = which < 22;
    let is_year = which < 4;
    let is_mm = which == 4;
    let is_dd = which == 5;
    let is_frac = which >= 30;
    let is_hh12_or_ampm = which == 23 || (which >= 26 && which <= 29);
    let fmt = one_field(f);
    let mut sink: Sink<48> = Sink::new();
    let (x, _) = ghost_date(1, 9999);
    let (t, (gh, gmi, gs, _)) = ghost_time();
    match ty {
        0 => {
            let r = fmt.format(x, &mut sink);
            assert!(r.is_ok() == is_date_kind);
            assert!(r.is_ok() || is_format_err(&r));
        }
        1 => {
            let r = fmt.format(t, &mut sink);
            assert!(r.is_ok() == !is_date_kind);
            assert!(r.is_ok() || is_format_err(&r));
        }
        2 => {
            let ts = ghost_ts(0, x, t.usecs());
            assert!(fmt.format(ts, &mut sink).is_ok());
        }
        3 => {
            let r = fmt.format(mk_ym(any_i32_in(-YM_MAX, YM_MAX)), &mut sink);
            assert!(r.is_ok() == (is_year || is_mm));
            assert!(r.is_ok() || is_format_err(&r));
        }
        4 => {
            let (v, _) = ghost_dt();
            let r = fmt.format(v, &mut sink);
            assert!(r.is_ok() == (is_dd || (!is_date_kind && !is_hh12_or_ampm)));
            assert!(r.is_ok() || is_format_err(&r));
        }
        _ => {
            // Oracle-style date: date and time fields, but no fractional seconds
            let t2 = Time::try_from_hms(gh, gmi, gs, 0).unwrap();
            unsafe {
                GHOST_TIME = (t2.usecs(), gh, gmi, gs, 0);
            }
            let ts = ghost_ts(0, x, t2.usecs());
            let od = mk_od(ts.usecs());
            let r = fmt.format(od, &mut sink);
            assert!(r.is_ok() == !is_frac);
            assert!(r.is_ok() || is_format_err(&r));
        }
    }
    kani::cover!(is_frac);
    kani::cover!(is_hh12_or_ampm);
    kani::cover!(is_mm);
    std::mem::forget(fmt);
}
