//@ attach src/lib.rs
//! C07 (timestamp = date x time of day, Time fields, order/hash), C08 (exact linear arithmetic),
//! C12 (time-of-day arithmetic modulo 24 h), C13 (interval decomposition) - all operands fully
//! symbolic over the types' whole ranges unless a chunk is named.
#![allow(dead_code, unused_imports)]
use super::*;
#[cfg(not(kani))]
use crate::verif_support::kani;
use crate::verif_support::*;
use crate::{Date, DateTime, Error, IntervalDT, IntervalYM, Sign, Time, Timestamp};
use std::cmp::Ordering;
use std::hash::{Hash, Hasher};

// ------------------------------------------------------------------------------------- C07

//@ unit c07_split prop=C07 chunks=days:1024/ts16k quickn=3 mem=3 timeout=900/1800 bound="every day number of the chunk x every microsecond of the day: new/extract/date/time/usecs"
fn c07_split(lo: i32, hi: i32) {
    let n = any_i32_in(lo, hi);
    let t = any_tod();
    let ts = Timestamp::new(mk_date(n), mk_time(t));
    let exact = n as i128 * USECS_DAY as i128 + t as i128;
    assert!(ts.usecs() as i128 == exact);
    assert!(ts.usecs() >= TS_MIN && ts.usecs() <= TS_MAX);
    let (d, tm) = ts.extract();
    assert!(d.days() == n);
    assert!(tm.usecs() == t);
    assert!(Timestamp::date(ts).days() == n);
    assert!(Timestamp::time(ts).usecs() == t);
    kani::cover!(t == 0);
    kani::cover!(t == USECS_DAY - 1);
    kani::cover!(n == lo && t == 1);
    kani::cover!(n == hi);
}

//@ unit c07_time_extract prop=C07 tier=thorough mem=4 timeout=3600 bound="every microsecond of the day"
fn c07_time_extract() {
    let t = any_tod();
    let tm = mk_time(t);
    let (h, mi, s, us) = tm.extract();
    assert!(h < 24 && mi < 60 && s < 60 && us < 1_000_000);
    let back = h as i64 * 3_600_000_000 + mi as i64 * 60_000_000 + s as i64 * 1_000_000 + us as i64;
    assert!(back == t);
    match Time::try_from_hms(h, mi, s, us) {
        Ok(x) => assert!(x.usecs() == t && x == tm),
        Err(_) => assert!(false),
    }
    assert!(tm.hour() == Some(h as i32));
    assert!(tm.minute() == Some(mi as i32));
    let sec = tm.second().unwrap();
    assert!(sec == (s as i64 * 1_000_000 + us as i64) as f64 / 1_000_000.0);
    assert!(sec >= 0.0 && sec < 60.0);
    assert!(tm.year().is_none() && tm.month().is_none() && tm.day().is_none() && DateTime::date(&tm).is_none());
    kani::cover!(t == 0);
    kani::cover!(t == USECS_DAY - 1);
}

//@ unit c07_time_ctor q23=1 prop=C07,C02 bound="every (u32 hour, u32 minute, u32 second, u32 microsecond)"
fn c07_time_ctor() {
    let h: u32 = kani::any();
    let mi: u32 = kani::any();
    let s: u32 = kani::any();
    let us: u32 = kani::any();
    let r = Time::try_from_hms(h, mi, s, us);
    let ok = Time::is_valid(h, mi, s, us);
    let v = Time::validate_hms(h, mi, s);
    if h < 24 && mi < 60 && s < 60 && us < 1_000_000 {
        assert!(ok && v.is_ok());
        match r {
            Ok(x) => {
                assert!(x.usecs() == h as i64 * 3_600_000_000 + mi as i64 * 60_000_000 + s as i64 * 1_000_000 + us as i64);
                assert!(x.usecs() >= 0 && x.usecs() < USECS_DAY);
            }
            Err(_) => assert!(false),
        }
        kani::cover!(h == 23 && mi == 59 && s == 59 && us == 999_999);
    } else {
        assert!(!ok);
        if h >= 24 {
            assert!(matches!(r, Err(Error::TimeOutOfRange)));
            assert!(matches!(v, Err(Error::TimeOutOfRange)));
            kani::cover!(h == 24);
            kani::cover!(h == u32::MAX);
        } else if mi >= 60 {
            assert!(matches!(r, Err(Error::InvalidMinute)));
            assert!(matches!(v, Err(Error::InvalidMinute)));
            kani::cover!(mi == 60);
        } else if s >= 60 {
            assert!(matches!(r, Err(Error::InvalidSecond)));
            assert!(matches!(v, Err(Error::InvalidSecond)));
            kani::cover!(s == 60);
        } else {
            assert!(matches!(r, Err(Error::InvalidFraction)));
            assert!(v.is_ok());
            kani::cover!(us == 1_000_000);
        }
    }
}

//@ unit c07_time_from_usecs q23=1 prop=C07,C02 bound="every i64 microsecond count"
fn c07_time_from_usecs() {
    let t: i64 = kani::any();
    match Time::try_from_usecs(t) {
        Ok(x) => {
            assert!(t >= 0 && t < USECS_DAY && x.usecs() == t);
            kani::cover!(t == USECS_DAY - 1);
        }
        Err(e) => {
            assert!(t < 0 || t >= USECS_DAY);
            assert!(matches!(e, Error::TimeOutOfRange));
            kani::cover!(t == USECS_DAY);
            kani::cover!(t == -1);
        }
    }
    assert!(Time::ZERO.usecs() == 0 && Time::MAX.usecs() == USECS_DAY - 1);
}

struct RecHasher {
    acc: u64,
    n: u32,
}
impl Hasher for RecHasher {
    fn finish(&self) -> u64 {
        self.acc
    }
    fn write(&mut self, bytes: &[u8]) {
        let mut i = 0;
        while i < bytes.len() {
            self.acc = self.acc.rotate_left(8) ^ bytes[i] as u64;
            self.n += 1;
            i += 1;
        }
    }
}

//@ unit c07_order_hash prop=C07 unwind=10 bound="every pair of valid dates, of valid times and of valid timestamps: Eq/Ord/Hash follow the raw counts (chronological order)"
fn c07_order_hash() {
    let a = any_i64_in(TS_MIN, TS_MAX);
    let b = any_i64_in(TS_MIN, TS_MAX);
    let (x, y) = (mk_ts(a), mk_ts(b));
    assert!((x < y) == (a < b) && (x == y) == (a == b) && (x <= y) == (a <= b));
    assert!(x.cmp(&y) == a.cmp(&b) && x.partial_cmp(&y) == Some(a.cmp(&b)));
    let ta = any_tod();
    let tb = any_tod();
    let (p, q) = (mk_time(ta), mk_time(tb));
    assert!((p < q) == (ta < tb) && (p == q) == (ta == tb) && p.cmp(&q) == ta.cmp(&tb));
    let da = any_i32_in(DAY_MIN, DAY_MAX);
    let db = any_i32_in(DAY_MIN, DAY_MAX);
    let (e, f) = (mk_date(da), mk_date(db));
    assert!((e < f) == (da < db) && (e == f) == (da == db) && e.cmp(&f) == da.cmp(&db));
    // hashing: equal values feed equal bytes; the bytes are those of the raw count
    let mut h1 = RecHasher { acc: 0, n: 0 };
    let mut h2 = RecHasher { acc: 0, n: 0 };
    x.hash(&mut h1);
    a.hash(&mut h2);
    assert!(h1.finish() == h2.finish() && h1.n == h2.n);
    let mut h3 = RecHasher { acc: 0, n: 0 };
    let mut h4 = RecHasher { acc: 0, n: 0 };
    p.hash(&mut h3);
    ta.hash(&mut h4);
    assert!(h3.finish() == h4.finish());
    let mut h5 = RecHasher { acc: 0, n: 0 };
    let mut h6 = RecHasher { acc: 0, n: 0 };
    e.hash(&mut h5);
    da.hash(&mut h6);
    assert!(h5.finish() == h6.finish());
    kani::cover!(a < b);
    kani::cover!(a == b);
}

//@ unit c07_ts_accessors prop=C07 stubs=crate::common::julian2date=>crate::verif_support::ghost_julian2date,crate::timestamp::Timestamp::date=>crate::verif_support::stub_ts_date,crate::timestamp::Timestamp::time=>crate::verif_support::stub_ts_time,crate::timestamp::Timestamp::extract=>crate::verif_support::stub_ts_extract bound="every real date (as a triple, YMD-ghost) x every microsecond of the day: year/month/day/hour/minute/second/date accessors of Timestamp; julian2date and the 64-bit split are replaced by their contracts (C01, c07_split)"
fn c07_ts_accessors() {
    let (d, (y, m, dd)) = ghost_date(1, 9999);
    let t = any_tod();
    let ts = ghost_ts(0, d, t);
    assert!(ts.year() == Some(y) && ts.month() == Some(m as i32) && ts.day() == Some(dd as i32));
    assert!(d.year() == Some(y) && d.month() == Some(m as i32) && d.day() == Some(dd as i32));
    assert!(d.hour().is_none() && d.minute().is_none() && d.second().is_none());
    assert!(DateTime::date(&d) == Some(d));
    assert!(DateTime::date(&ts) == Some(d));
    // (the time-of-day accessors of a timestamp: s07_ts_time_accessors, for every timestamp)
    kani::cover!(d.days() < 0 && t > 0);
    kani::cover!(m == 2 && dd == 29);
}

// ------------------------------------------------------------------------------------- C08

fn in_day(x: i128) -> bool {
    x >= DAY_MIN as i128 && x <= DAY_MAX as i128
}
fn in_ts(x: i128) -> bool {
    x >= TS_MIN as i128 && x <= TS_MAX as i128
}
fn in_dt(x: i128) -> bool {
    x >= -(DT_MAX as i128) && x <= DT_MAX as i128
}
fn in_ym(x: i128) -> bool {
    x >= -(YM_MAX as i128) && x <= YM_MAX as i128
}

//@ unit c08_date_days q23=1 prop=C08,C02,C03 bound="every valid date x every i32 day offset: add_days, sub_days, sub_date and the derived laws"
fn c08_date_days() {
    let n = any_i32_in(DAY_MIN, DAY_MAX);
    let k: i32 = kani::any();
    let d = mk_date(n);
    let exact = n as i128 + k as i128;
    match d.add_days(k) {
        Ok(r) => {
            assert!(in_day(exact) && r.days() as i128 == exact);
            // x + i - i == x, (x + i) - x == i
            match r.sub_days(k) {
                Ok(b) => assert!(b == d),
                Err(_) => assert!(false),
            }
            assert!(r.sub_date(d) == k);
            assert!(d.sub_date(r) as i128 == -(k as i128));
            kani::cover!(r.days() == DAY_MAX);
        }
        Err(e) => {
            assert!(!in_day(exact));
            assert!(matches!(e, Error::DateOutOfRange));
            kani::cover!(exact == DAY_MAX as i128 + 1);
            kani::cover!(k == i32::MAX);
        }
    }
    let exact2 = n as i128 - k as i128;
    match d.sub_days(k) {
        Ok(r) => assert!(in_day(exact2) && r.days() as i128 == exact2),
        Err(e) => {
            assert!(!in_day(exact2));
            assert!(matches!(e, Error::DateOutOfRange));
            kani::cover!(k == i32::MIN);
            kani::cover!(exact2 == DAY_MIN as i128 - 1);
        }
    }
    let m = any_i32_in(DAY_MIN, DAY_MAX);
    assert!(d.sub_date(mk_date(m)) as i128 == n as i128 - m as i128);
}

//@ unit c08_date_usecs prop=C08 tier=thorough timeout=3600 bound="every valid date x every valid day-time interval / time of day / timestamp: add/sub_interval_dt, add/sub_time, sub_timestamp"
fn c08_date_usecs() {
    let n = any_i32_in(DAY_MIN, DAY_MAX);
    let i = any_i64_in(-DT_MAX, DT_MAX);
    let t = any_tod();
    let u = any_i64_in(TS_MIN, TS_MAX);
    let d = mk_date(n);
    // the midnight count is formed exactly as a 64-bit product (it cannot overflow: |n| < 2^22)
    let base = (n as i64 * USECS_DAY) as i128;
    match d.add_interval_dt(mk_dt(i)) {
        Ok(r) => {
            assert!(in_ts(base + i as i128) && r.usecs() as i128 == base + i as i128);
            kani::cover!(r.usecs() == TS_MAX);
        }
        Err(e) => {
            assert!(!in_ts(base + i as i128) && matches!(e, Error::DateOutOfRange));
            kani::cover!(base + i as i128 == TS_MAX as i128 + 1);
        }
    }
    match d.sub_interval_dt(mk_dt(i)) {
        Ok(r) => assert!(in_ts(base - i as i128) && r.usecs() as i128 == base - i as i128),
        Err(e) => {
            assert!(!in_ts(base - i as i128) && matches!(e, Error::DateOutOfRange));
            kani::cover!(base - i as i128 == TS_MIN as i128 - 1);
        }
    }
    let at = d.add_time(mk_time(t));
    assert!(at.usecs() as i128 == base + t as i128 && in_ts(at.usecs() as i128));
    match d.sub_time(mk_time(t)) {
        Ok(r) => assert!(in_ts(base - t as i128) && r.usecs() as i128 == base - t as i128),
        Err(e) => {
            assert!(!in_ts(base - t as i128) && matches!(e, Error::DateOutOfRange));
            kani::cover!(n == DAY_MIN && t == 1);
        }
    }
    let diff = d.sub_timestamp(mk_ts(u));
    assert!(diff.usecs() as i128 == base - u as i128 && in_dt(diff.usecs() as i128));
    // a - b == -(b - a)
    assert!(mk_ts(u).sub_date(d).usecs() == -diff.usecs());
    assert!(d.and_time(mk_time(t)) == at);
}

//@ unit c08_ts_usecs prop=C08,C02,C03 bound="every valid timestamp x every valid day-time interval / time of day / timestamp / date"
fn c08_ts_usecs() {
    let a = any_i64_in(TS_MIN, TS_MAX);
    let i = any_i64_in(-DT_MAX, DT_MAX);
    let t = any_tod();
    let b = any_i64_in(TS_MIN, TS_MAX);
    let n = any_i32_in(DAY_MIN, DAY_MAX);
    let x = mk_ts(a);
    match x.add_interval_dt(mk_dt(i)) {
        Ok(r) => {
            assert!(in_ts(a as i128 + i as i128) && r.usecs() as i128 == a as i128 + i as i128);
            match r.sub_interval_dt(mk_dt(i)) {
                Ok(back) => assert!(back == x),
                Err(_) => assert!(false),
            }
            assert!(r.sub_timestamp(x).usecs() == i);
        }
        Err(e) => {
            assert!(!in_ts(a as i128 + i as i128) && matches!(e, Error::DateOutOfRange));
            kani::cover!(a as i128 + i as i128 == TS_MAX as i128 + 1);
            kani::cover!(a as i128 + i as i128 == TS_MIN as i128 - 1);
        }
    }
    match x.sub_interval_dt(mk_dt(i)) {
        Ok(r) => assert!(in_ts(a as i128 - i as i128) && r.usecs() as i128 == a as i128 - i as i128),
        Err(e) => assert!(!in_ts(a as i128 - i as i128) && matches!(e, Error::DateOutOfRange)),
    }
    match x.add_time(mk_time(t)) {
        Ok(r) => assert!(in_ts(a as i128 + t as i128) && r.usecs() as i128 == a as i128 + t as i128),
        Err(e) => {
            assert!(!in_ts(a as i128 + t as i128) && matches!(e, Error::DateOutOfRange));
            kani::cover!(a == TS_MAX && t == 1);
        }
    }
    match x.sub_time(mk_time(t)) {
        Ok(r) => assert!(in_ts(a as i128 - t as i128) && r.usecs() as i128 == a as i128 - t as i128),
        Err(e) => {
            assert!(!in_ts(a as i128 - t as i128) && matches!(e, Error::DateOutOfRange));
            kani::cover!(a == TS_MIN && t == 1);
        }
    }
    let d1 = x.sub_timestamp(mk_ts(b));
    assert!(d1.usecs() as i128 == a as i128 - b as i128 && in_dt(d1.usecs() as i128));
    assert!(mk_ts(b).sub_timestamp(x).usecs() == -d1.usecs());
    let d2 = x.sub_date(mk_date(n));
    assert!(d2.usecs() as i128 == a as i128 - (n as i64 * USECS_DAY) as i128 && in_dt(d2.usecs() as i128));
}

//@ unit c08_intervals q23=1 prop=C08,C02,C03 bound="every pair of valid year-month intervals, every pair of valid day-time intervals, every day-time interval x time of day"
fn c08_intervals() {
    let a = any_i32_in(-YM_MAX, YM_MAX);
    let b = any_i32_in(-YM_MAX, YM_MAX);
    match mk_ym(a).add_interval_ym(mk_ym(b)) {
        Ok(r) => {
            assert!(in_ym(a as i128 + b as i128) && r.months() as i128 == a as i128 + b as i128);
            match r.sub_interval_ym(mk_ym(b)) {
                Ok(back) => assert!(back.months() == a),
                Err(_) => assert!(false),
            }
            kani::cover!(r.months() == YM_MAX);
        }
        Err(e) => {
            assert!(!in_ym(a as i128 + b as i128) && matches!(e, Error::IntervalOutOfRange));
            kani::cover!(a as i128 + b as i128 == YM_MAX as i128 + 1);
        }
    }
    match mk_ym(a).sub_interval_ym(mk_ym(b)) {
        Ok(r) => assert!(in_ym(a as i128 - b as i128) && r.months() as i128 == a as i128 - b as i128),
        Err(e) => {
            assert!(!in_ym(a as i128 - b as i128) && matches!(e, Error::IntervalOutOfRange));
            kani::cover!(a as i128 - b as i128 == -(YM_MAX as i128) - 1);
        }
    }
    let p = any_i64_in(-DT_MAX, DT_MAX);
    let q = any_i64_in(-DT_MAX, DT_MAX);
    match mk_dt(p).add_interval_dt(mk_dt(q)) {
        Ok(r) => {
            assert!(in_dt(p as i128 + q as i128) && r.usecs() as i128 == p as i128 + q as i128);
            match r.sub_interval_dt(mk_dt(q)) {
                Ok(back) => assert!(back.usecs() == p),
                Err(_) => assert!(false),
            }
        }
        Err(e) => {
            assert!(!in_dt(p as i128 + q as i128) && matches!(e, Error::IntervalOutOfRange));
            kani::cover!(p as i128 + q as i128 == DT_MAX as i128 + 1);
        }
    }
    match mk_dt(p).sub_interval_dt(mk_dt(q)) {
        Ok(r) => assert!(in_dt(p as i128 - q as i128) && r.usecs() as i128 == p as i128 - q as i128),
        Err(e) => assert!(!in_dt(p as i128 - q as i128) && matches!(e, Error::IntervalOutOfRange)),
    }
    let t = any_tod();
    match mk_dt(p).sub_time(mk_time(t)) {
        Ok(r) => assert!(in_dt(p as i128 - t as i128) && r.usecs() as i128 == p as i128 - t as i128),
        Err(e) => {
            assert!(!in_dt(p as i128 - t as i128) && matches!(e, Error::IntervalOutOfRange));
            kani::cover!(p == -DT_MAX && t == 1);
        }
    }
}

//@ unit c08_ts_add_days prop=C08,C02,C03 chunks=ints:-62135596800000000,-1,0,221845392000000000,1,86399999999,253402300799999999 mem=5 timeout=1500/3600 quick=first:2 bound="timestamp = the parameter (both range ends, the epoch and its neighbours, a date beyond the year 2255) x every f64 day offset (all 2^64 bit patterns incl. NaN, infinities): add_days/sub_days = offset*86400e6 rounded to the nearest microsecond (ties away from zero) added exactly; NaN -> InvalidNumber, infinite product -> NumericOverflow, out of range -> DateOutOfRange"
fn c08_ts_add_days(a: i64) {
    let days: f64 = kani::any();
    let x = mk_ts(a);
    let p = days * 86_400_000_000.0;
    let r = x.add_days(days);
    if p.is_nan() {
        assert!(matches!(r, Err(Error::InvalidNumber)));
        kani::cover!(true);
    } else if p.is_infinite() {
        assert!(matches!(r, Err(Error::NumericOverflow)));
        kani::cover!(days.is_finite());
    } else if p >= 9.3e18 || p <= -9.3e18 {
        assert!(matches!(r, Err(Error::DateOutOfRange)));
        kani::cover!(true);
    } else {
        // k = the integer nearest to p (ties away from zero), characterised without round():
        // for |p| >= 2^52 every double is an integer; below, k is exact in f64.
        match r {
            Ok(v) => {
                let k = v.usecs() as i128 - a as i128;
                let kf = k as f64;
                if p >= 4503599627370496.0 || p <= -4503599627370496.0 {
                    assert!(kf == p);
                } else {
                    let diff = kf - p;
                    assert!(diff <= 0.5 && diff >= -0.5);
                    if diff == 0.5 {
                        assert!(p > 0.0);
                    }
                    if diff == -0.5 {
                        assert!(p < 0.0);
                    }
                }
                assert!(in_ts(v.usecs() as i128));
                kani::cover!(k != 0);
                kani::cover!(k == 0 && days != 0.0);
            }
            Err(e) => {
                assert!(matches!(e, Error::DateOutOfRange));
                // the exact sum is outside the range for the rounded offset
                let pr = if p >= 4503599627370496.0 || p <= -4503599627370496.0 { p as i128 } else { p as i128 };
                // |p - trunc(p)| < 1, so the rounded offset is within 1 of pr
                assert!(!in_ts(a as i128 + pr - 1) || !in_ts(a as i128 + pr + 1));
                kani::cover!(true);
            }
        }
    }
}

//@ unit c08_ts_sub_days prop=C08 tier=thorough chunks=ints:-62135596800000000,0,221845392000000000,253402300799999999 mem=5 timeout=3600 bound="timestamp = the parameter x every f64: sub_days(d) is add_days(-d)"
fn c08_ts_sub_days(a: i64) {
    let days: f64 = kani::any();
    let x = mk_ts(a);
    match (x.sub_days(days), x.add_days(-days)) {
        (Ok(u), Ok(v)) => assert!(u == v),
        (Err(_), Err(_)) => {}
        _ => assert!(false),
    }
    kani::cover!(days > 0.0);
}

// ------------------------------------------------------------------------------------- C12

/// `x` reduced modulo 24 h into 0..24h, stated by multiplication (the quotient is drawn and
/// constrained, no division in the oracle).
fn emod_day(x: i128) -> i64 {
    let q: i64 = kani::any();
    kani::assume(q >= -110_000_000 && q <= 110_000_000);
    let r = x - q as i128 * USECS_DAY as i128;
    kani::assume(r >= 0 && r < USECS_DAY as i128);
    r as i64
}

/// Any valid day-time interval whose magnitude has `dlo..=dhi` whole days (either sign).
fn any_dt_days(dlo: i64, dhi: i64) -> i64 {
    let i: i64 = kani::any();
    let lo = dlo * USECS_DAY;
    let hi = if dhi >= 100_000_000 { DT_MAX } else { dhi * USECS_DAY + USECS_DAY - 1 };
    kani::assume((i >= lo && i <= hi) || (i <= -lo && i >= -hi));
    i
}

//@ unit c12_time_interval prop=C12 tier=thorough chunks=dtdays:256 mem=3 timeout=2400 bound="every microsecond of the day x every day-time interval of either sign whose whole-day count is in the chunk: add/sub_interval_dt wrap modulo 24 h"
fn c12_time_interval(dlo: i64, dhi: i64) {
    let t = any_tod();
    let i = any_dt_days(dlo, dhi);
    let r = mk_time(t).add_interval_dt(mk_dt(i));
    assert!(r.usecs() == emod_day(t as i128 + i as i128));
    assert!(r.usecs() >= 0 && r.usecs() < USECS_DAY);
    let s = mk_time(t).sub_interval_dt(mk_dt(i));
    assert!(s.usecs() == emod_day(t as i128 - i as i128));
    kani::cover!(i < 0 && r.usecs() == 0);
    kani::cover!(i > 0 && r.usecs() == USECS_DAY - 1);
    kani::cover!(i < 0 && t + i % USECS_DAY < 0);
}

//@ unit c12_time_from_interval prop=C12,C03 chunks=dtdays:1024/dtdays:4096 quickn=2 mem=3 timeout=900/1800 bound="every day-time interval of either sign whose whole-day count is in the chunk: Time::from keeps the magnitude modulo one day"
fn c12_time_from_interval(dlo: i64, dhi: i64) {
    let i = any_dt_days(dlo, dhi);
    let tm = Time::from(mk_dt(i));
    let mag = if i < 0 { -(i as i128) } else { i as i128 };
    assert!(tm.usecs() == emod_day(mag));
    assert!(tm.usecs() >= 0 && tm.usecs() < USECS_DAY);
    kani::cover!(i < 0 && tm.usecs() == 1);
    kani::cover!(i > 0 && tm.usecs() == USECS_DAY - 1);
}

//@ unit c12_time_misc prop=C12,C02,C03 bound="every pair of times of day; every time x every valid day-time interval: sub_time, IntervalDT::from(Time), mixed comparisons in both argument orders"
fn c12_time_misc() {
    let a = any_tod();
    let b = any_tod();
    let d = mk_time(a).sub_time(mk_time(b));
    assert!(d.usecs() == a - b);
    assert!(mk_time(b).sub_time(mk_time(a)).usecs() == b - a);
    let i = any_i64_in(-DT_MAX, DT_MAX);
    let iv = IntervalDT::from(mk_time(a));
    assert!(iv.usecs() == a);
    let (t, v) = (mk_time(a), mk_dt(i));
    assert!((t == v) == (a == i) && (v == t) == (a == i));
    assert!(t.partial_cmp(&v) == Some(a.cmp(&i)));
    assert!(v.partial_cmp(&t) == Some(i.cmp(&a)));
    assert!((t < v) == (a < i) && (v < t) == (i < a) && (t <= v) == (a <= i) && (v >= t) == (i >= a));
    kani::cover!(a == i);
    kani::cover!(i < 0);
    kani::cover!(i > USECS_DAY);
}

// ------------------------------------------------------------------------------------- C13

//@ unit c13_ym q23=1 prop=C13,C02,C03 bound="every valid year-month interval (all 4,272,000,001 values) and every (u32 year, u32 month) pair / i32 month count for the constructors"
fn c13_ym() {
    let v = any_i32_in(-YM_MAX, YM_MAX);
    let x = mk_ym(v);
    let (sign, y, m) = x.extract();
    assert!(m < 12);
    let mag = y as i64 * 12 + m as i64;
    assert!(mag == (v as i64).abs());
    assert!((sign == Sign::Negative) == (v < 0));
    if v >= 0 {
        match IntervalYM::try_from_ym(y, m) {
            Ok(b) => assert!(b == x),
            Err(_) => assert!(false),
        }
    } else {
        match IntervalYM::try_from_ym(y, m) {
            Ok(b) => assert!(-b == x && b.months() == -v),
            Err(_) => assert!(false),
        }
    }
    // negation is an involution that preserves the range
    let n = -x;
    assert!(n.months() == -v && (-n) == x);
    assert!(n.months() >= -YM_MAX && n.months() <= YM_MAX);
    // signed accessors agree with the decomposition
    let sg: i64 = if v < 0 { -1 } else { 1 };
    assert!(x.year() == Some((sg * y as i64) as i32));
    assert!(x.month() == Some((sg * m as i64) as i32));
    assert!(x.day().is_none() && x.hour().is_none() && x.minute().is_none() && x.second().is_none());
    // constructors
    let yy: u32 = kani::any();
    let mm: u32 = kani::any();
    let r = IntervalYM::try_from_ym(yy, mm);
    let okf = IntervalYM::is_valid_ym(yy, mm);
    let val = yy as i128 * 12 + mm as i128;
    if mm < 12 && val <= YM_MAX as i128 {
        assert!(okf);
        match r {
            Ok(b) => assert!(b.months() as i128 == val),
            Err(_) => assert!(false),
        }
        kani::cover!(yy == 178_000_000 && mm == 0);
    } else {
        assert!(!okf);
        assert!(r.is_err());
        if yy > 178_000_000 || (yy == 178_000_000 && mm != 0) {
            assert!(matches!(r, Err(Error::IntervalOutOfRange)));
        } else {
            assert!(matches!(r, Err(Error::InvalidMonth)));
        }
        kani::cover!(yy == 178_000_000 && mm == 1);
        kani::cover!(mm == 12 && yy == 0);
        kani::cover!(yy == u32::MAX);
    }
    let k: i32 = kani::any();
    match IntervalYM::try_from_months(k) {
        Ok(b) => assert!(k >= -YM_MAX && k <= YM_MAX && b.months() == k),
        Err(e) => {
            assert!((k < -YM_MAX || k > YM_MAX) && matches!(e, Error::IntervalOutOfRange));
            kani::cover!(k == YM_MAX + 1);
            kani::cover!(k == i32::MIN);
        }
    }
    // ordering is numeric
    let w = any_i32_in(-YM_MAX, YM_MAX);
    assert!(x.cmp(&mk_ym(w)) == v.cmp(&w) && (x == mk_ym(w)) == (v == w));
    assert!(IntervalYM::MAX.months() == YM_MAX && IntervalYM::MIN.months() == -YM_MAX && IntervalYM::ZERO.months() == 0);
}

//@ unit c13_dt_extract prop=C13 tier=thorough chunks=dtdays:256 mem=3 timeout=2400 bound="every day-time interval of either sign whose whole-day count is in the chunk: extract, constructor inverse, negation, order"
fn c13_dt_extract(dlo: i64, dhi: i64) {
    let v = any_dt_days(dlo, dhi);
    let x = mk_dt(v);
    let (sign, d, h, mi, s, us) = x.extract();
    assert!(h < 24 && mi < 60 && s < 60 && us < 1_000_000 && d <= 100_000_000);
    let mag = d as i128 * USECS_DAY as i128 + h as i128 * 3_600_000_000 + mi as i128 * 60_000_000 + s as i128 * 1_000_000 + us as i128;
    assert!(mag == (v as i128).abs());
    assert!((sign == Sign::Negative) == (v < 0));
    match IntervalDT::try_from_dhms(d, h, mi, s, us) {
        Ok(b) => {
            if v >= 0 {
                assert!(b == x)
            } else {
                assert!(-b == x)
            }
        }
        Err(_) => assert!(false),
    }
    let n = -x;
    assert!(n.usecs() == -v && (-n) == x && n.usecs() >= -DT_MAX && n.usecs() <= DT_MAX);
    let w = any_i64_in(-DT_MAX, DT_MAX);
    assert!(x.cmp(&mk_dt(w)) == v.cmp(&w) && (x == mk_dt(w)) == (v == w));
    kani::cover!(v < 0 && us == 999_999 && h == 23);
    kani::cover!(v > 0 && us == 0 && h == 0 && mi == 0 && s == 0);
}

/// |v| = d days + h hours + mi minutes + sus microseconds-of-minute, found by multiplication.
fn dt_fields(v: i64, dlo: i64, dhi: i64) -> (i64, i64, i64, i64) {
    let d: i64 = kani::any();
    let h: i64 = kani::any();
    let mi: i64 = kani::any();
    let sus: i64 = kani::any();
    kani::assume(d >= dlo && d <= dhi && h >= 0 && h < 24 && mi >= 0 && mi < 60 && sus >= 0 && sus < 60_000_000);
    kani::assume(d as i128 * USECS_DAY as i128 + h as i128 * 3_600_000_000 + mi as i128 * 60_000_000 + sus as i128 == (v as i128).abs());
    (d, h, mi, sus)
}

//@ unit c13_dt_acc_day prop=C13,C03 chunks=dtdays:1024/dtdays:4096 quickn=2 mem=3 timeout=900/1800 bound="every day-time interval of either sign whose whole-day count is in the chunk: signed day() accessor"
fn c13_dt_acc_day(dlo: i64, dhi: i64) {
    let v = any_dt_days(dlo, dhi);
    let (d, _, _, _) = dt_fields(v, dlo, dhi);
    let sg: i64 = if v < 0 { -1 } else { 1 };
    let x = mk_dt(v);
    assert!(x.day() == Some((sg * d) as i32));
    assert!(x.year().is_none() && x.month().is_none() && DateTime::date(&x).is_none());
    kani::cover!(v < 0);
    kani::cover!(v > 0);
}

//@ unit c13_dt_acc_hour prop=C13 tier=thorough chunks=dtdays:256 mem=3 timeout=2400 bound="as c13_dt_acc_day: signed hour() accessor"
fn c13_dt_acc_hour(dlo: i64, dhi: i64) {
    let v = any_dt_days(dlo, dhi);
    let (_, h, _, _) = dt_fields(v, dlo, dhi);
    let sg: i64 = if v < 0 { -1 } else { 1 };
    assert!(mk_dt(v).hour() == Some((sg * h) as i32));
    kani::cover!(v < 0 && h == 23);
    kani::cover!(v > 0 && h == 0);
}

//@ unit c13_dt_acc_minute prop=C13 tier=thorough chunks=tuples:0,63 mem=3 timeout=3000 bound="as c13_dt_acc_day: signed minute() accessor"
fn c13_dt_acc_minute(dlo: i64, dhi: i64) {
    let v = any_dt_days(dlo, dhi);
    let (_, _, mi, _) = dt_fields(v, dlo, dhi);
    let sg: i64 = if v < 0 { -1 } else { 1 };
    assert!(mk_dt(v).minute() == Some((sg * mi) as i32));
    kani::cover!(v < 0 && mi == 59);
    kani::cover!(v > 0 && mi == 0);
}

//@ unit c13_dt_acc_second prop=C13 tier=thorough chunks=tuples:0,63 mem=3 timeout=3000 bound="as c13_dt_acc_day: signed second() accessor (seconds with the microseconds as fraction)"
fn c13_dt_acc_second(dlo: i64, dhi: i64) {
    let v = any_dt_days(dlo, dhi);
    let (_, _, _, sus) = dt_fields(v, dlo, dhi);
    let sg: i64 = if v < 0 { -1 } else { 1 };
    assert!(mk_dt(v).second() == Some((sg * sus) as f64 / 1_000_000.0));
    kani::cover!(v < 0 && sus == 59_999_999);
    kani::cover!(v > 0 && sus == 1);
}

//@ unit c13_dt_ctor prop=C13,C02,C03 timeout=900 bound="every (u32 day, hour, minute, second, microsecond) tuple and every i64 microsecond count for the constructors"
fn c13_dt_ctor() {
    let d: u32 = kani::any();
    let h: u32 = kani::any();
    let mi: u32 = kani::any();
    let s: u32 = kani::any();
    let us: u32 = kani::any();
    let r = IntervalDT::try_from_dhms(d, h, mi, s, us);
    let okf = IntervalDT::is_valid(d, h, mi, s, us);
    let fields_ok = h < 24 && mi < 60 && s < 60 && us < 1_000_000;
    let day_ok = d < 100_000_000 || (d == 100_000_000 && h == 0 && mi == 0 && s == 0 && us == 0);
    if fields_ok && day_ok {
        assert!(okf);
        let val = d as i64 * USECS_DAY + h as i64 * 3_600_000_000 + mi as i64 * 60_000_000 + s as i64 * 1_000_000 + us as i64;
        match r {
            Ok(b) => assert!(b.usecs() == val && val <= DT_MAX),
            Err(_) => assert!(false),
        }
        kani::cover!(d == 100_000_000);
        kani::cover!(d == 99_999_999 && h == 23 && us == 999_999);
    } else {
        assert!(!okf && r.is_err());
        if d > 100_000_000 || (d == 100_000_000 && (h != 0 || mi != 0 || s != 0 || us != 0)) {
            assert!(matches!(r, Err(Error::IntervalOutOfRange)));
            kani::cover!(d == 100_000_000 && us == 1);
        } else if h >= 24 {
            assert!(matches!(r, Err(Error::TimeOutOfRange)));
        } else if mi >= 60 {
            assert!(matches!(r, Err(Error::InvalidMinute)));
        } else if s >= 60 {
            assert!(matches!(r, Err(Error::InvalidSecond)));
        } else {
            assert!(matches!(r, Err(Error::InvalidFraction)));
            kani::cover!(us == 1_000_000);
        }
    }
    let k: i64 = kani::any();
    match IntervalDT::try_from_usecs(k) {
        Ok(b) => assert!(k >= -DT_MAX && k <= DT_MAX && b.usecs() == k),
        Err(e) => {
            assert!((k < -DT_MAX || k > DT_MAX) && matches!(e, Error::IntervalOutOfRange));
            kani::cover!(k == DT_MAX + 1);
            kani::cover!(k == i64::MIN);
        }
    }
    assert!(IntervalDT::MAX.usecs() == DT_MAX && IntervalDT::MIN.usecs() == -DT_MAX && IntervalDT::ZERO.usecs() == 0);
}
