//@ attach src/lib.rs
//! C14 - scaling an interval (or a time of day) by a float: the multiplier/divisor is a fully
//! symbolic f64 (all 2^64 bit patterns: NaN, infinities, signed zeros, subnormals), the interval
//! operand is a concrete value from a pool (both operands symbolic is out of reach for the
//! bit-blasted IEEE multiplier/divider).  The double product/quotient itself is IEEE-754 correct
//! rounding, which CBMC's float model implements; what is checked is everything around it.
#![allow(dead_code, unused_imports)]
use super::*;
#[cfg(not(kani))]
use crate::verif_support::kani;
use crate::verif_support::*;
use crate::{Error, IntervalDT, IntervalYM, Time};

/// `x` is `p` truncated toward zero: same sign (or zero) and |x| <= |p| < |x| + 1.
fn is_trunc_of(x: f64, p: f64) -> bool {
    if p >= 0.0 {
        x >= 0.0 && x <= p && p < x + 1.0
    } else {
        x <= 0.0 && x >= p && p > x - 1.0
    }
}

fn check_ym(r: &crate::error::Result<IntervalYM>, p: f64) {
    if p.is_nan() {
        assert!(matches!(r, Err(Error::InvalidNumber)));
    } else if p.is_infinite() {
        assert!(matches!(r, Err(Error::NumericOverflow)));
    } else if p >= (YM_MAX as f64) + 1.0 || p <= -(YM_MAX as f64) - 1.0 {
        assert!(matches!(r, Err(Error::IntervalOutOfRange)));
    } else {
        match r {
            Ok(x) => {
                assert!(x.months() >= -YM_MAX && x.months() <= YM_MAX);
                assert!(is_trunc_of(x.months() as f64, p));
            }
            Err(_) => assert!(false),
        }
    }
}

//@ unit c14_ym_mul prop=C14,C02,C03 chunks=ints:2136000000,11,-2136000000/ints:2136000000,11,-2136000000,1,-1,-13,1000,1068000000,7 mem=4 timeout=900/3600 quick=all bound="year-month interval = the parameter (months), multiplier = every f64 (all bit patterns): NaN -> InvalidNumber, infinite -> NumericOverflow, |product| >= max+1 -> IntervalOutOfRange, otherwise Ok(product truncated toward zero)"
fn c14_ym_mul(v: i32) {
    let k: f64 = kani::any();
    let p = v as f64 * k;
    let r = mk_ym(v).mul_f64(k);
    check_ym(&r, p);
    kani::cover!(k.is_nan());
    kani::cover!(k.is_infinite());
    kani::cover!(k > -1.0 && k < 1.0 && k != 0.0);
}

/// Concrete multipliers / divisors: integers, dyadic and decimal fractions, tiny, huge, signed
/// zeros, infinities and NaN.
fn kpool(i: u8) -> f64 {
    match i {
        0 => 5e-324,
        1 => -1.0,
        2 => 2.0,
        3 => 3.0,
        4 => 0.1,
        5 => -7.0,
        6 => 1e-9,
        7 => 1e9,
        8 => 1.0000000000000002,
        9 => f64::MAX,
        10 => f64::MIN_POSITIVE,
        11 => 0.5,
        12 => 0.0,
        13 => -0.0,
        14 => f64::INFINITY,
        15 => f64::NEG_INFINITY,
        _ => f64::NAN,
    }
}

//@ unit c14_ym_mulk prop=C14,C02,C03 chunks=ints:0,1,2,3,5,9,10,11,12,13,14,15,16/ints:0,1,2,3,5,9,10,11,12,13,14,15,16,4,6,7,8 quick=all mem=4 timeout=900/3600 bound="EVERY valid year-month interval (one symbolic i32) x the multiplier given by the parameter (index into a pool of integers, dyadic fractions, tiny, huge, signed zeros, infinities, NaN; thorough adds the decimal fractions 0.1, 1e-9, 1e9, 1+2^-52, whose dense mantissas take 10-20 min each): classification and truncation toward zero"
fn c14_ym_mulk(ki: u8) {
    let k = kpool(ki);
    let v = any_i32_in(-YM_MAX, YM_MAX);
    let r = mk_ym(v).mul_f64(k);
    check_ym(&r, v as f64 * k);
    kani::cover!(v == YM_MAX);
    kani::cover!(v < 0);
}

//@ unit c14_ym_divk prop=C14,C02,C03 chunks=ints:0,1,2,3,5,9,10,11,12,13,14,15,16/ints:0,1,2,3,5,9,10,11,12,13,14,15,16,4,6,7,8 quick=all mem=4 timeout=900/3600 bound="EVERY valid year-month interval x the divisor given by the parameter (same pool): +-0 -> DivideByZero, classification, truncation toward zero"
fn c14_ym_divk(ki: u8) {
    let k = kpool(ki);
    let v = any_i32_in(-YM_MAX, YM_MAX);
    let rd = mk_ym(v).div_f64(k);
    if k == 0.0 {
        assert!(matches!(rd, Err(Error::DivideByZero)));
    } else {
        check_ym(&rd, v as f64 / k);
    }
    kani::cover!(v == -YM_MAX);
    kani::cover!(v > 0);
}

//@ unit c14_ym_div_special prop=C14,C02,C03 chunks=ints:2136000000,1,-13,0 quick=all mem=4 timeout=900/3600 bound="year-month interval = the parameter, divisor = every f64 that is a zero, a NaN (all payloads) or an infinity: DivideByZero for +-0, InvalidNumber / zero quotient as IEEE says"
fn c14_ym_div_special(v: i32) {
    let k: f64 = kani::any();
    kani::assume(k == 0.0 || k.is_nan() || k.is_infinite());
    let rd = mk_ym(v).div_f64(k);
    if k == 0.0 {
        assert!(matches!(rd, Err(Error::DivideByZero)));
        kani::cover!(k.is_sign_negative());
    } else if k.is_nan() {
        assert!(matches!(rd, Err(Error::InvalidNumber)));
    } else {
        // x / +-inf = +-0: the zero interval
        match rd {
            Ok(x) => assert!(x.months() == 0),
            Err(_) => assert!(false),
        }
    }
    kani::cover!(k.is_nan());
    kani::cover!(k.is_infinite());
}

//@ unit c14_ym_int prop=C14,C02,C03 chunks=ints:2136000000,-13,1000,-2136000000/ints:2136000000,-13,1000,-2136000000,1,-1,12,178000000,7 mem=4 timeout=900/3600 quick=all bound="year-month interval = the parameter, factor = every i32 (as f64): the product is exact (x*k, or IntervalOutOfRange when it leaves the range); the quotient is exact whenever k divides x"
fn c14_ym_int(v: i32) {
    let ki: i32 = kani::any();
    let prod = v as i64 * ki as i64;
    match mk_ym(v).mul_f64(ki as f64) {
        Ok(a) => assert!(a.months() as i64 == prod),
        Err(e) => assert!((prod > YM_MAX as i64 || prod < -(YM_MAX as i64)) && matches!(e, Error::IntervalOutOfRange)),
    }
    if ki != 0 && v as i64 % ki as i64 == 0 {
        match mk_ym(v).div_f64(ki as f64) {
            Ok(a) => assert!(a.months() as i64 == v as i64 / ki as i64),
            Err(_) => assert!(false),
        }
    }
    kani::cover!(prod != 0);
    kani::cover!(ki == -1);
}

//@ unit c14_ym_sym prop=C14,C03 chunks=ints:2136000000,-11/ints:2136000000,-11,1,1000,-1068000000 mem=4 timeout=900/3600 quick=all bound="year-month interval = the parameter, multiplier = every f64: (-x)*k == -(x*k) == x*(-k), errors on all three or none"
fn c14_ym_sym(v: i32) {
    let k: f64 = kani::any();
    let r = mk_ym(v).mul_f64(k);
    let r1 = mk_ym(-v).mul_f64(k);
    let r2 = mk_ym(v).mul_f64(-k);
    match (&r, &r1, &r2) {
        (Ok(a), Ok(b), Ok(c)) => assert!(b.months() == -a.months() && c.months() == -a.months()),
        (Err(_), Err(_), Err(_)) => {}
        _ => assert!(false),
    }
    kani::cover!(r.is_ok());
    kani::cover!(r.is_err());
}

fn check_dt(r: &crate::error::Result<IntervalDT>, p: f64) {
    if p.is_nan() {
        assert!(matches!(r, Err(Error::InvalidNumber)));
    } else if p.is_infinite() {
        assert!(matches!(r, Err(Error::NumericOverflow)));
    } else if p >= 8_640_000_000_000_002_048.0 || p <= -8_640_000_000_000_002_048.0 {
        // next double above 8.64e18 (ulp 1024): certainly out of range
        assert!(matches!(r, Err(Error::IntervalOutOfRange)));
    } else {
        match r {
            Ok(x) => {
                assert!(x.usecs() >= -DT_MAX && x.usecs() <= DT_MAX);
                if p < 4503599627370496.0 && p > -4503599627370496.0 {
                    assert!(is_trunc_of(x.usecs() as f64, p));
                } else {
                    // |p| >= 2^52: p is an integer already
                    assert!(x.usecs() as f64 == p);
                }
            }
            Err(e) => {
                // p is exactly 8.64e18 +- rounding: only possible at the very edge
                assert!(matches!(e, Error::IntervalOutOfRange));
                assert!(p > 8_640_000_000_000_000_000.0 || p < -8_640_000_000_000_000_000.0);
            }
        }
    }
}

//@ unit c14_dt_mul prop=C14,C02,C03 chunks=ints:8640000000000000000,1000000,4194304/ints:8640000000000000000,1000000,4194304,1,-1,86400000000,-60000000 mem=6 timeout=1500/3600 quick=all bound="day-time interval = the parameter (microseconds), multiplier = every f64: classification and truncation toward zero"
fn c14_dt_mul(v: i64) {
    let k: f64 = kani::any();
    let p = v as f64 * k;
    let r = mk_dt(v).mul_f64(k);
    check_dt(&r, p);
    kani::cover!(k.is_nan());
    kani::cover!(k.is_infinite());
    kani::cover!(p.is_finite() && k > 0.0 && k < 1.0);
}

//@ unit c14_dt_sym prop=C14,C03 tier=thorough chunks=ints:1,-1000000,86400000000 mem=6 timeout=1500/3600 bound="day-time interval = the parameter, multiplier = every f64: (-x)*k == -(x*k) == x*(-k)"
fn c14_dt_sym(v: i64) {
    let k: f64 = kani::any();
    let r = mk_dt(v).mul_f64(k);
    let r1 = mk_dt(-v).mul_f64(k);
    let r2 = mk_dt(v).mul_f64(-k);
    match (&r, &r1, &r2) {
        (Ok(a), Ok(b), Ok(c)) => assert!(b.usecs() == -a.usecs() && c.usecs() == -a.usecs()),
        (Err(_), Err(_), Err(_)) => {}
        _ => assert!(false),
    }
    kani::cover!(r.is_ok());
}

//@ unit c14_dt_int prop=C14,C02,C03 chunks=ints:1,-1,4194304/ints:1,-1,4194304,1000000,86400000000,123456789012,-60000000 mem=6 timeout=1500/3600 quick=all bound="day-time interval = the parameter (below 2^53), factor = every i32 (as f64): the product is exact while |x*k| < 2^53; the quotient is exact whenever k divides x"
fn c14_dt_int(v: i64) {
    let ki: i32 = kani::any();
    let prod = v as i128 * ki as i128;
    if prod < 9007199254740992 && prod > -9007199254740992 {
        match mk_dt(v).mul_f64(ki as f64) {
            Ok(a) => assert!(a.usecs() as i128 == prod),
            Err(_) => assert!(false),
        }
    }
    if ki != 0 && v % ki as i64 == 0 {
        match mk_dt(v).div_f64(ki as f64) {
            Ok(a) => assert!(a.usecs() == v / ki as i64),
            Err(_) => assert!(false),
        }
    }
    kani::cover!(ki == i32::MAX);
}

//@ unit c14_dt_mulk prop=C14,C02,C03 chunks=ints:0,1,2,3,5,9,10,11,12,13,14,15,16/ints:0,1,2,3,5,9,10,11,12,13,14,15,16,4,6,7,8 quick=all mem=6 timeout=1500/3600 bound="EVERY valid day-time interval (one symbolic i64 in +-8.64e18) x the multiplier given by the parameter (pool index): classification and truncation toward zero"
fn c14_dt_mulk(ki: u8) {
    let k = kpool(ki);
    let v = any_i64_in(-DT_MAX, DT_MAX);
    let r = mk_dt(v).mul_f64(k);
    check_dt(&r, v as f64 * k);
    kani::cover!(v == DT_MAX);
    kani::cover!(v < 0);
}

//@ unit c14_dt_divk prop=C14,C02,C03 chunks=ints:0,1,2,3,5,9,10,11,12,13,14,15,16/ints:0,1,2,3,5,9,10,11,12,13,14,15,16,4,6,7,8 quick=all mem=6 timeout=1500/3600 bound="EVERY valid day-time interval x the divisor given by the parameter (pool index): +-0 -> DivideByZero, classification, truncation toward zero"
fn c14_dt_divk(ki: u8) {
    let k = kpool(ki);
    let v = any_i64_in(-DT_MAX, DT_MAX);
    let rd = mk_dt(v).div_f64(k);
    if k == 0.0 {
        assert!(matches!(rd, Err(Error::DivideByZero)));
    } else {
        check_dt(&rd, v as f64 / k);
    }
    kani::cover!(v == -DT_MAX);
    kani::cover!(v > 0);
}

//@ unit c14_dt_div_special prop=C14,C02,C03 chunks=ints:8640000000000000000,1,-60000000,0 quick=all mem=6 timeout=1500/3600 bound="day-time interval = the parameter, divisor = every f64 that is a zero, a NaN or an infinity"
fn c14_dt_div_special(v: i64) {
    let k: f64 = kani::any();
    kani::assume(k == 0.0 || k.is_nan() || k.is_infinite());
    let rd = mk_dt(v).div_f64(k);
    if k == 0.0 {
        assert!(matches!(rd, Err(Error::DivideByZero)));
        kani::cover!(k.is_sign_negative());
    } else if k.is_nan() {
        assert!(matches!(rd, Err(Error::InvalidNumber)));
    } else {
        match rd {
            Ok(x) => assert!(x.usecs() == 0),
            Err(_) => assert!(false),
        }
    }
    kani::cover!(k.is_nan());
    kani::cover!(k.is_infinite());
}

//@ unit c14_time prop=C14 tier=thorough chunks=ints:0,1,43200000000,86399999999,3600000000 mem=6 timeout=3600 bound="time of day = the parameter (microseconds), number = every f64: Time::mul_f64/div_f64 equal the day-time interval of the same microsecond count"
fn c14_time(t: i64) {
    let k: f64 = kani::any();
    let tm = mk_time(t);
    let a = tm.mul_f64(k);
    let b = mk_dt(t).mul_f64(k);
    match (&a, &b) {
        (Ok(x), Ok(y)) => assert!(x == y),
        (Err(Error::InvalidNumber), Err(Error::InvalidNumber)) => {}
        (Err(Error::NumericOverflow), Err(Error::NumericOverflow)) => {}
        (Err(Error::IntervalOutOfRange), Err(Error::IntervalOutOfRange)) => {}
        _ => assert!(false),
    }
    check_dt(&a, t as f64 * k);
    let c = tm.div_f64(k);
    if k == 0.0 {
        assert!(matches!(c, Err(Error::DivideByZero)));
    } else {
        check_dt(&c, t as f64 / k);
    }
    kani::cover!(k.is_nan());
    kani::cover!(k == 0.0);
}
