"""SMT obligations over the MIR of the crate's integer kernels (see tools/mirsmt.py).

Every spec is a generator: it declares symbolic inputs on the engine (with the documented
precondition), symbolically executes functions of the crate taken from rustc's MIR dump of the
current source, and yields (path condition, post-condition, label); `post == "panic"` marks a
feasible panic path.  The Rust twin of the same name in harness/smt_twins.rs draws the same inputs
in the same order and asserts the same property natively (replay of counterexamples).
"""
import glob
import os
import re
import z3
from mirsmt import Struct, Enum, Unsupported, I, simp

D = 86_400_000_000
EJ = 2_440_588
DAY_MIN, DAY_MAX = -719_162, 2_932_896
TS_MIN, TS_MAX = DAY_MIN * D, (DAY_MAX + 1) * D - 1
DT_MAX = 100_000_000 * D
YM_MAX = 178_000_000 * 12


def parse_enums(src):
    out = {}
    for path in glob.glob(os.path.join(src, "*.rs")):
        mod = os.path.basename(path)[:-3]
        txt = open(path).read()
        for m in re.finditer(r"pub enum (\w+)\s*\{(.*?)\n\}", txt, re.S):
            body = re.sub(r"//.*", "", m.group(2))
            body = re.sub(r"#\[[^\]]*\]", "", body)
            vs, nxt = {}, 0
            for item in [x.strip() for x in body.split(",\n") if x.strip()]:
                item = item.rstrip(",")
                mm = re.match(r"^(\w+)(?:\s*\(.*\))?(?:\s*=\s*(-?\d+))?$", item, re.S)
                if not mm:
                    continue
                if mm.group(2) is not None:
                    nxt = int(mm.group(2))
                vs[mm.group(1)] = nxt
                nxt += 1
            out["%s::%s" % (mod, m.group(1))] = vs
    return out


ENUMS = parse_enums(os.environ.get("VERIF_SRC", "/repo/src"))
ERR = ENUMS.get("error::Error", {})


def run(E, name, ptypes, args, pc=(), ret=None):
    f = E.find(name, ptypes, ret)
    for pc2, out in E.run(f, args, list(pc)):
        yield out[0], pc2, out[1]


def leap(y):
    return z3.Or(y % 400 == 0, z3.And(y % 4 == 0, y % 100 != 0))


def dim(y, m):
    return z3.If(z3.Or(m == 4, m == 6, m == 9, m == 11), 30, z3.If(m == 2, z3.If(leap(y), 29, 28), 31))


def valid_ymd(y, m, d):
    return z3.And(y >= 1, y <= 9999, m >= 1, m <= 12, d >= 1, d <= dim(y, m))


def succ_is(a, b):
    """b is the calendar successor of a"""
    (y, m, d), (y2, m2, d2) = a, b
    return z3.If(d < dim(y, m), z3.And(y2 == y, m2 == m, d2 == d + 1),
                 z3.If(m < 12, z3.And(y2 == y, m2 == m + 1, d2 == 1), z3.And(y2 == y + 1, m2 == 1, d2 == 1)))


def is_ok(v):
    return v.d == 0


def ok_payload(v):
    return v.p["Ok"][0]


def date_of(n):
    return Struct([I(n)], "date::Date")


# ------------------------------------------------------------------------------------- C01
def s01_inverse(E):
    """every day number: extract gives a real date whose try_from_ymd is the same number"""
    n = E.int_in("n", "i32", DAY_MIN, DAY_MAX)
    for k, pc, v in run(E, "extract", ["date::Date"], [date_of(n)]):
        if k == "panic":
            yield pc, "panic", v
            continue
        y, m, d = v.f
        yield pc, valid_ymd(y, m, d), "extract(n) is a real date"
        for k2, pc2, r in run(E, "try_from_ymd", ["i32", "u32", "u32"], [y, m, d], pc):
            if k2 == "panic":
                yield pc2, "panic", r
                continue
            post = z3.And(is_ok(r), ok_payload(r).f[0] == n) if "Ok" in r.p else z3.BoolVal(False)
            yield pc2, post, "try_from_ymd(extract(n)) == Ok(n)"


def s01_left_inverse(E, ylo=1, yhi=9999):
    """every real date triple: extract(try_from_ymd(y,m,d)) == (y,m,d)  (discharges YMD-ghost)"""
    y = E.int_in("y", "i32", ylo, yhi)
    m = E.int_in("m", "u32", 1, 12)
    d = E.int_in("d", "u32", 1, 31)
    E.assume(d <= dim(y, m))
    for k, pc, r in run(E, "try_from_ymd", ["i32", "u32", "u32"], [y, m, d]):
        if k == "panic":
            yield pc, "panic", r
            continue
        if "Ok" not in r.p:
            yield pc, z3.BoolVal(False), "try_from_ymd accepts every real date"
            continue
        yield pc, is_ok(r), "try_from_ymd accepts every real date"
        dt = ok_payload(r)
        n = dt.f[0]
        yield pc, z3.And(n >= DAY_MIN, n <= DAY_MAX), "day number in range"
        for k2, pc2, v in run(E, "extract", ["date::Date"], [dt], pc + [is_ok(r)]):
            if k2 == "panic":
                yield pc2, "panic", v
                continue
            yield pc2, z3.And(v.f[0] == y, v.f[1] == m, v.f[2] == d), "extract(try_from_ymd(y,m,d)) == (y,m,d)"


def s01_step(E):
    """consecutive day numbers are consecutive calendar dates; the weekday advances by one"""
    n = E.int_in("n", "i32", DAY_MIN, DAY_MAX - 1)
    for k, pc, a in run(E, "extract", ["date::Date"], [date_of(n)]):
        if k == "panic":
            yield pc, "panic", a
            continue
        for k2, pc2, b in run(E, "extract", ["date::Date"], [date_of(n + 1)], pc):
            if k2 == "panic":
                yield pc2, "panic", b
                continue
            yield pc2, succ_is(a.f, b.f), "extract(n+1) is the successor of extract(n)"


def s01_weekday(E):
    n = E.int_in("n", "i32", DAY_MIN, DAY_MAX)
    for k, pc, w in run(E, "day_of_week", ["date::Date"], [date_of(n)]):
        if k == "panic":
            yield pc, "panic", w
            continue
        yield pc, w.d == ((n + 4) % 7) + 1, "weekday = Thursday-anchored day count mod 7 (Sunday = 1)"


# ------------------------------------------------------------------------------------- C07
def ts_of(u):
    return Struct([I(u)], "timestamp::Timestamp")


def time_of(t):
    return Struct([I(t)], "time::Time")


def s07_split(E):
    """every date x every microsecond: new/extract/date/time"""
    n = E.int_in("n", "i32", DAY_MIN, DAY_MAX)
    t = E.int_in("t", "i64", 0, D - 1)
    for k, pc, ts in run(E, "new", ["date::Date", "time::Time"], [date_of(n), time_of(t)], ret="timestamp::Timestamp"):
        if k == "panic":
            yield pc, "panic", ts
            continue
        u = ts.f[0]
        yield pc, z3.And(u == n * D + t, u >= TS_MIN, u <= TS_MAX), "new(d, t) = d*86400e6 + t, in range"
        for k2, pc2, r in run(E, "extract", ["timestamp::Timestamp"], [ts], pc):
            if k2 == "panic":
                yield pc2, "panic", r
                continue
            yield pc2, z3.And(r.f[0].f[0] == n, r.f[1].f[0] == t), "extract(new(d, t)) == (d, t)"
        for k2, pc2, r in run(E, "date", ["timestamp::Timestamp"], [ts], pc):
            if k2 == "panic":
                yield pc2, "panic", r
                continue
            yield pc2, r.f[0] == n, "date(new(d, t)) == d"
        for k2, pc2, r in run(E, "time", ["timestamp::Timestamp"], [ts], pc):
            if k2 == "panic":
                yield pc2, "panic", r
                continue
            yield pc2, r.f[0] == t, "time(new(d, t)) == t"


def s07_split_any(E):
    """every valid timestamp count: the split is the unique (n, t) - discharges TS-split"""
    u = E.int_in("u", "i64", TS_MIN, TS_MAX)
    for name, proj in (("extract", None), ("date", 0), ("time", 1)):
        for k, pc, r in run(E, name, ["timestamp::Timestamp"], [ts_of(u)]):
            if k == "panic":
                yield pc, "panic", r
                continue
            if proj is None:
                n, t = r.f[0].f[0], r.f[1].f[0]
                yield pc, z3.And(n * D + t == u, t >= 0, t < D, n >= DAY_MIN, n <= DAY_MAX), "extract: n*D + t == u, 0 <= t < D"
            elif proj == 0:
                n = r.f[0]
                yield pc, z3.And(n * D <= u, u < n * D + D), "date: floor division"
            else:
                t = r.f[0]
                yield pc, z3.And(t >= 0, t < D, (u - t) % D == 0), "time: euclidean remainder"


def s07_time_fields(E):
    t = E.int_in("t", "i64", 0, D - 1)
    for k, pc, r in run(E, "extract", ["time::Time"], [time_of(t)]):
        if k == "panic":
            yield pc, "panic", r
            continue
        h, mi, s, us = r.f
        yield pc, z3.And(h >= 0, h < 24, mi >= 0, mi < 60, s >= 0, s < 60, us >= 0, us < 1_000_000,
                         h * 3_600_000_000 + mi * 60_000_000 + s * 1_000_000 + us == t), "Time::extract fields recombine"
    for name, div, mod in (("hour", 3_600_000_000, 24), ("minute", 60_000_000, 60)):
        for k, pc, r in run(E, name, ["&time::Time"], [time_of(t)]):
            if k == "panic":
                yield pc, "panic", r
                continue
            yield pc, z3.And(r.d == 1, r.p["Some"][0] == (t / div) % mod), "Time::%s accessor" % name


# ------------------------------------------------------------------------------------- C12
def dt_of(i):
    return Struct([I(i)], "interval::IntervalDT")


def s12_add(E):
    """every time of day x every valid day-time interval: wrap modulo 24 h"""
    t = E.int_in("t", "i64", 0, D - 1)
    i = E.int_in("i", "i64", -DT_MAX, DT_MAX)
    for name, sign in (("add_interval_dt", 1), ("sub_interval_dt", -1)):
        for k, pc, r in run(E, name, ["time::Time", "interval::IntervalDT"], [time_of(t), dt_of(i)]):
            if k == "panic":
                yield pc, "panic", r
                continue
            yield pc, r.f[0] == (t + sign * i) % D, "Time::%s = (t +- i) mod 24h" % name


def s12_from_interval(E):
    i = E.int_in("i", "i64", -DT_MAX, DT_MAX)
    for k, pc, r in run(E, "from", ["interval::IntervalDT"], [dt_of(i)], ret="time::Time"):
        if k == "panic":
            yield pc, "panic", r
            continue
        yield pc, r.f[0] == z3.If(i < 0, -i, i) % D, "Time::from(IntervalDT) = |i| mod 24h"


# ------------------------------------------------------------------------------------- C13
def s13_dt(E):
    v = E.int_in("v", "i64", -DT_MAX, DT_MAX)
    mag = z3.If(v < 0, -v, v)
    sg = z3.If(v < 0, -1, 1)
    for k, pc, r in run(E, "extract", ["interval::IntervalDT"], [dt_of(v)]):
        if k == "panic":
            yield pc, "panic", r
            continue
        sign, d, h, mi, s, us = r.f
        yield pc, z3.And(sign.d == sg, d >= 0, d <= 100_000_000, h >= 0, h < 24, mi >= 0, mi < 60, s >= 0, s < 60,
                         us >= 0, us < 1_000_000,
                         d * D + h * 3_600_000_000 + mi * 60_000_000 + s * 1_000_000 + us == mag), "IntervalDT::extract"
    for name, expect in (("day", sg * (mag / D)), ("hour", sg * ((mag / 3_600_000_000) % 24)),
                         ("minute", sg * ((mag / 60_000_000) % 60))):
        for k, pc, r in run(E, name, ["&interval::IntervalDT"], [dt_of(v)]):
            if k == "panic":
                yield pc, "panic", r
                continue
            yield pc, z3.And(r.d == 1, r.p["Some"][0] == expect), "IntervalDT::%s signed accessor" % name
    for k, pc, r in run(E, "negate", ["interval::IntervalDT"], [dt_of(v)]):
        if k == "panic":
            yield pc, "panic", r
            continue
        yield pc, r.f[0] == -v, "negate"


def s13_ym(E):
    v = E.int_in("v", "i32", -YM_MAX, YM_MAX)
    mag = z3.If(v < 0, -v, v)
    sg = z3.If(v < 0, -1, 1)
    ym = Struct([v], "interval::IntervalYM")
    for k, pc, r in run(E, "extract", ["interval::IntervalYM"], [ym]):
        if k == "panic":
            yield pc, "panic", r
            continue
        sign, y, m = r.f
        yield pc, z3.And(sign.d == sg, m >= 0, m < 12, y * 12 + m == mag), "IntervalYM::extract"
    for name, expect in (("year", sg * (mag / 12)), ("month", sg * (mag % 12))):
        for k, pc, r in run(E, name, ["&interval::IntervalYM"], [ym]):
            if k == "panic":
                yield pc, "panic", r
                continue
            yield pc, z3.And(r.d == 1, r.p["Some"][0] == expect), "IntervalYM::%s signed accessor" % name


# ------------------------------------------------------------------------------------- C16
def od_of(u):
    return Struct([ts_of(u)], "oracle::Date")


def s16_floor(E):
    """every timestamp: converting to the Oracle-style date floors to the whole second"""
    u = E.int_in("u", "i64", TS_MIN, TS_MAX)
    for k, pc, r in run(E, "from", ["timestamp::Timestamp"], [ts_of(u)], ret="oracle::Date"):
        if k == "panic":
            yield pc, "panic", r
            continue
        x = r.f[0].f[0]
        yield pc, z3.And(x % 1_000_000 == 0, x <= u, u < x + 1_000_000, x >= TS_MIN), "From<Timestamp> floors toward earlier time"


def s16_new(E):
    n = E.int_in("n", "i32", DAY_MIN, DAY_MAX)
    t = E.int_in("t", "i64", 0, D - 1)
    f = [x for x in E.by_last["new"] if x.name.startswith("oracle::")]
    if len(f) != 1:
        raise Unsupported("oracle Date::new not found")
    for pc, out in E.run(f[0], [date_of(n), time_of(t)], []):
        if out[0] == "panic":
            yield pc, "panic", out[1]
            continue
        x = out[1].f[0].f[0]
        yield pc, z3.And(x == n * D + t - t % 1_000_000, x % 1_000_000 == 0), "OracleDate::new drops the sub-second part"


def s16_try_from_usecs(E):
    u = E.int_in("u", "i64")
    f = [x for x in E.by_last["try_from_usecs"] if x.name.startswith("oracle::")]
    for pc, out in E.run(f[0], [u], []):
        if out[0] == "panic":
            yield pc, "panic", out[1]
            continue
        r = out[1]
        good = z3.And(u >= TS_MIN, u <= TS_MAX, u % 1_000_000 == 0)
        if "Ok" in r.p:
            yield pc, z3.And(is_ok(r) == good, z3.Implies(is_ok(r), ok_payload(r).f[0].f[0] == u)), "try_from_usecs accepts exactly in-range whole seconds"
        else:
            yield pc, z3.And(z3.Not(good), r.p["Err"][0].d == ERR["DateOutOfRange"]), "try_from_usecs error"
