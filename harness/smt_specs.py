"""SMT obligations over the MIR of the crate's integer kernels (see tools/mirsmt.py).

Every spec is a generator: it declares symbolic inputs on the engine (with the documented
precondition), symbolically executes functions of the crate taken from rustc's MIR dump of the
current source, and yields (path condition, post-condition, label); `post == "panic"` marks a
feasible panic path.  The Rust twin of the same name in harness/smt_twins.rs draws the same inputs
in the same order and asserts the same property natively (replay of counterexamples).
"""
import glob
import os
import re
import z3
from mirsmt import Struct, Enum, Unsupported, I, simp

D = 86_400_000_000
EJ = 2_440_588
DAY_MIN, DAY_MAX = -719_162, 2_932_896
TS_MIN, TS_MAX = DAY_MIN * D, (DAY_MAX + 1) * D - 1
DT_MAX = 100_000_000 * D
YM_MAX = 178_000_000 * 12


def parse_enums(src):
    out = {}
    for path in glob.glob(os.path.join(src, "*.rs")):
        mod = os.path.basename(path)[:-3]
        txt = open(path).read()
        for m in re.finditer(r"pub enum (\w+)\s*\{(.*?)\n\}", txt, re.S):
            body = re.sub(r"//.*", "", m.group(2))
            body = re.sub(r"#\[[^\]]*\]", "", body)
            vs, nxt = {}, 0
            for item in [x.strip() for x in body.split(",\n") if x.strip()]:
                item = item.rstrip(",")
                mm = re.match(r"^(\w+)(?:\s*\(.*\))?(?:\s*=\s*(-?\d+))?$", item, re.S)
                if not mm:
                    continue
                if mm.group(2) is not None:
                    nxt = int(mm.group(2))
                vs[mm.group(1)] = nxt
                nxt += 1
            out["%s::%s" % (mod, m.group(1))] = vs
    return out


ENUMS = parse_enums(os.environ.get("VERIF_SRC", "/repo/src"))
ERR = ENUMS.get("error::Error", {})


def run(E, name, ptypes, args, pc=(), ret=None):
    f = E.find(name, ptypes, ret)
    for pc2, out in E.run(f, args, list(pc)):
        yield out[0], pc2, out[1]


def leap(y):
    return z3.Or(y % 400 == 0, z3.And(y % 4 == 0, y % 100 != 0))


def dim(y, m):
    return z3.If(z3.Or(m == 4, m == 6, m == 9, m == 11), 30, z3.If(m == 2, z3.If(leap(y), 29, 28), 31))


def valid_ymd(y, m, d):
    return z3.And(y >= 1, y <= 9999, m >= 1, m <= 12, d >= 1, d <= dim(y, m))


def succ_is(a, b):
    """b is the calendar successor of a"""
    (y, m, d), (y2, m2, d2) = a, b
    return z3.If(d < dim(y, m), z3.And(y2 == y, m2 == m, d2 == d + 1),
                 z3.If(m < 12, z3.And(y2 == y, m2 == m + 1, d2 == 1), z3.And(y2 == y + 1, m2 == 1, d2 == 1)))


def is_ok(v):
    return v.d == 0


def ok_payload(v):
    return v.p["Ok"][0]


def date_of(n):
    return Struct([I(n)], "date::Date")


# ------------------------------------------------------------------------------------- C01
def s01_inverse(E):
    """every day number: extract gives a real date whose try_from_ymd is the same number"""
    n = E.int_in("n", "i32", DAY_MIN, DAY_MAX)
    for k, pc, v in run(E, "extract", ["date::Date"], [date_of(n)]):
        if k == "panic":
            yield pc, "panic", v
            continue
        y, m, d = v.f
        yield pc, valid_ymd(y, m, d), "extract(n) is a real date"
        for k2, pc2, r in run(E, "try_from_ymd", ["i32", "u32", "u32"], [y, m, d], pc):
            if k2 == "panic":
                yield pc2, "panic", r
                continue
            post = z3.And(is_ok(r), ok_payload(r).f[0] == n) if "Ok" in r.p else z3.BoolVal(False)
            yield pc2, post, "try_from_ymd(extract(n)) == Ok(n)"


def s01_left_inverse(E, ylo=1, yhi=9999):
    """every real date triple: extract(try_from_ymd(y,m,d)) == (y,m,d)  (discharges YMD-ghost)"""
    y = E.int_in("y", "i32", ylo, yhi)
    m = E.int_in("m", "u32", 1, 12)
    d = E.int_in("d", "u32", 1, 31)
    E.assume(d <= dim(y, m))
    for k, pc, r in run(E, "try_from_ymd", ["i32", "u32", "u32"], [y, m, d]):
        if k == "panic":
            yield pc, "panic", r
            continue
        if "Ok" not in r.p:
            yield pc, z3.BoolVal(False), "try_from_ymd accepts every real date"
            continue
        yield pc, is_ok(r), "try_from_ymd accepts every real date"
        dt = ok_payload(r)
        n = dt.f[0]
        yield pc, z3.And(n >= DAY_MIN, n <= DAY_MAX), "day number in range"
        for k2, pc2, v in run(E, "extract", ["date::Date"], [dt], pc + [is_ok(r)]):
            if k2 == "panic":
                yield pc2, "panic", v
                continue
            yield pc2, z3.And(v.f[0] == y, v.f[1] == m, v.f[2] == d), "extract(try_from_ymd(y,m,d)) == (y,m,d)"


def s01_step(E):
    """consecutive day numbers are consecutive calendar dates; the weekday advances by one"""
    n = E.int_in("n", "i32", DAY_MIN, DAY_MAX - 1)
    for k, pc, a in run(E, "extract", ["date::Date"], [date_of(n)]):
        if k == "panic":
            yield pc, "panic", a
            continue
        for k2, pc2, b in run(E, "extract", ["date::Date"], [date_of(n + 1)], pc):
            if k2 == "panic":
                yield pc2, "panic", b
                continue
            yield pc2, succ_is(a.f, b.f), "extract(n+1) is the successor of extract(n)"


def s01_weekday(E):
    n = E.int_in("n", "i32", DAY_MIN, DAY_MAX)
    for k, pc, w in run(E, "day_of_week", ["date::Date"], [date_of(n)]):
        if k == "panic":
            yield pc, "panic", w
            continue
        yield pc, w.d == ((n + 4) % 7) + 1, "weekday = Thursday-anchored day count mod 7 (Sunday = 1)"


# ------------------------------------------------------------------------------------- C07
def ts_of(u):
    return Struct([I(u)], "timestamp::Timestamp")


def time_of(t):
    return Struct([I(t)], "time::Time")


def s07_split(E):
    """every date x every microsecond: new/extract/date/time"""
    n = E.int_in("n", "i32", DAY_MIN, DAY_MAX)
    t = E.int_in("t", "i64", 0, D - 1)
    for k, pc, ts in run(E, "new", ["date::Date", "time::Time"], [date_of(n), time_of(t)], ret="timestamp::Timestamp"):
        if k == "panic":
            yield pc, "panic", ts
            continue
        u = ts.f[0]
        yield pc, z3.And(u == n * D + t, u >= TS_MIN, u <= TS_MAX), "new(d, t) = d*86400e6 + t, in range"
        for k2, pc2, r in run(E, "extract", ["timestamp::Timestamp"], [ts], pc):
            if k2 == "panic":
                yield pc2, "panic", r
                continue
            yield pc2, z3.And(r.f[0].f[0] == n, r.f[1].f[0] == t), "extract(new(d, t)) == (d, t)"
        for k2, pc2, r in run(E, "date", ["timestamp::Timestamp"], [ts], pc):
            if k2 == "panic":
                yield pc2, "panic", r
                continue
            yield pc2, r.f[0] == n, "date(new(d, t)) == d"
        for k2, pc2, r in run(E, "time", ["timestamp::Timestamp"], [ts], pc):
            if k2 == "panic":
                yield pc2, "panic", r
                continue
            yield pc2, r.f[0] == t, "time(new(d, t)) == t"


def s07_split_any(E):
    """every valid timestamp count: the split is the unique (n, t) - discharges TS-split"""
    u = E.int_in("u", "i64", TS_MIN, TS_MAX)
    for name, proj in (("extract", None), ("date", 0), ("time", 1)):
        for k, pc, r in run(E, name, ["timestamp::Timestamp"], [ts_of(u)]):
            if k == "panic":
                yield pc, "panic", r
                continue
            if proj is None:
                n, t = r.f[0].f[0], r.f[1].f[0]
                yield pc, z3.And(n * D + t == u, t >= 0, t < D, n >= DAY_MIN, n <= DAY_MAX), "extract: n*D + t == u, 0 <= t < D"
            elif proj == 0:
                n = r.f[0]
                yield pc, z3.And(n * D <= u, u < n * D + D), "date: floor division"
            else:
                t = r.f[0]
                yield pc, z3.And(t >= 0, t < D, (u - t) % D == 0), "time: euclidean remainder"


def s07_time_fields(E):
    t = E.int_in("t", "i64", 0, D - 1)
    for k, pc, r in run(E, "extract", ["time::Time"], [time_of(t)]):
        if k == "panic":
            yield pc, "panic", r
            continue
        h, mi, s, us = r.f
        yield pc, z3.And(h >= 0, h < 24, mi >= 0, mi < 60, s >= 0, s < 60, us >= 0, us < 1_000_000,
                         h * 3_600_000_000 + mi * 60_000_000 + s * 1_000_000 + us == t), "Time::extract fields recombine"
    for name, div, mod in (("hour", 3_600_000_000, 24), ("minute", 60_000_000, 60)):
        for k, pc, r in run(E, name, ["&time::Time"], [time_of(t)]):
            if k == "panic":
                yield pc, "panic", r
                continue
            yield pc, z3.And(r.d == 1, r.p["Some"][0] == (t / div) % mod), "Time::%s accessor" % name
    fdiv = z3.Function("f64_div", z3.RealSort(), z3.RealSort(), z3.RealSort())
    for k, pc, r in run(E, "second", ["&time::Time"], [time_of(t)]):
        if k == "panic":
            yield pc, "panic", r
            continue
        yield pc, z3.And(r.d == 1, r.p["Some"][0] == fdiv(z3.ToReal(t % 60_000_000), z3.ToReal(z3.IntVal(1_000_000)))), "Time::second = microseconds of the minute / 1e6 (as f64)"


def s07_ts_time_accessors(E):
    """hour/minute/second of a timestamp are those of its time of day, for every timestamp"""
    u = E.int_in("u", "i64", TS_MIN, TS_MAX)
    t = u % D
    fdiv = z3.Function("f64_div", z3.RealSort(), z3.RealSort(), z3.RealSort())
    for name, expect in (("hour", t / 3_600_000_000), ("minute", (t / 60_000_000) % 60)):
        for k, pc, r in run(E, name, ["&timestamp::Timestamp"], [ts_of(u)]):
            if k == "panic":
                yield pc, "panic", r
                continue
            yield pc, z3.And(r.d == 1, r.p["Some"][0] == expect), "Timestamp::%s" % name
    for k, pc, r in run(E, "second", ["&timestamp::Timestamp"], [ts_of(u)]):
        if k == "panic":
            yield pc, "panic", r
            continue
        yield pc, z3.And(r.d == 1, r.p["Some"][0] == fdiv(z3.ToReal(t % 60_000_000), z3.ToReal(z3.IntVal(1_000_000)))), "Timestamp::second"


# ------------------------------------------------------------------------------------- C12
def dt_of(i):
    return Struct([I(i)], "interval::IntervalDT")


def s12_add(E):
    """every time of day x every valid day-time interval: wrap modulo 24 h"""
    t = E.int_in("t", "i64", 0, D - 1)
    i = E.int_in("i", "i64", -DT_MAX, DT_MAX)
    for name, sign in (("add_interval_dt", 1), ("sub_interval_dt", -1)):
        for k, pc, r in run(E, name, ["time::Time", "interval::IntervalDT"], [time_of(t), dt_of(i)]):
            if k == "panic":
                yield pc, "panic", r
                continue
            yield pc, r.f[0] == (t + sign * i) % D, "Time::%s = (t +- i) mod 24h" % name


def s12_from_interval(E):
    i = E.int_in("i", "i64", -DT_MAX, DT_MAX)
    for k, pc, r in run(E, "from", ["interval::IntervalDT"], [dt_of(i)], ret="time::Time"):
        if k == "panic":
            yield pc, "panic", r
            continue
        yield pc, r.f[0] == z3.If(i < 0, -i, i) % D, "Time::from(IntervalDT) = |i| mod 24h"


# ------------------------------------------------------------------------------------- C13
def s13_dt(E):
    v = E.int_in("v", "i64", -DT_MAX, DT_MAX)
    mag = z3.If(v < 0, -v, v)
    sg = z3.If(v < 0, -1, 1)
    for k, pc, r in run(E, "extract", ["interval::IntervalDT"], [dt_of(v)]):
        if k == "panic":
            yield pc, "panic", r
            continue
        sign, d, h, mi, s, us = r.f
        yield pc, z3.And(sign.d == sg, d >= 0, d <= 100_000_000, h >= 0, h < 24, mi >= 0, mi < 60, s >= 0, s < 60,
                         us >= 0, us < 1_000_000,
                         d * D + h * 3_600_000_000 + mi * 60_000_000 + s * 1_000_000 + us == mag), "IntervalDT::extract"
    for name, expect in (("day", sg * (mag / D)), ("hour", sg * ((mag / 3_600_000_000) % 24)),
                         ("minute", sg * ((mag / 60_000_000) % 60))):
        for k, pc, r in run(E, name, ["&interval::IntervalDT"], [dt_of(v)]):
            if k == "panic":
                yield pc, "panic", r
                continue
            yield pc, z3.And(r.d == 1, r.p["Some"][0] == expect), "IntervalDT::%s signed accessor" % name
    fdiv = z3.Function("f64_div", z3.RealSort(), z3.RealSort(), z3.RealSort())
    for k, pc, r in run(E, "second", ["&interval::IntervalDT"], [dt_of(v)]):
        if k == "panic":
            yield pc, "panic", r
            continue
        yield pc, z3.And(r.d == 1, r.p["Some"][0] == fdiv(z3.ToReal(sg * (mag % 60_000_000)), z3.ToReal(z3.IntVal(1_000_000)))), "IntervalDT::second = signed microseconds of the minute / 1e6 (as f64)"
    for k, pc, r in run(E, "negate", ["interval::IntervalDT"], [dt_of(v)]):
        if k == "panic":
            yield pc, "panic", r
            continue
        yield pc, r.f[0] == -v, "negate"


def s13_ym(E):
    v = E.int_in("v", "i32", -YM_MAX, YM_MAX)
    mag = z3.If(v < 0, -v, v)
    sg = z3.If(v < 0, -1, 1)
    ym = Struct([v], "interval::IntervalYM")
    for k, pc, r in run(E, "extract", ["interval::IntervalYM"], [ym]):
        if k == "panic":
            yield pc, "panic", r
            continue
        sign, y, m = r.f
        yield pc, z3.And(sign.d == sg, m >= 0, m < 12, y * 12 + m == mag), "IntervalYM::extract"
    for name, expect in (("year", sg * (mag / 12)), ("month", sg * (mag % 12))):
        for k, pc, r in run(E, name, ["&interval::IntervalYM"], [ym]):
            if k == "panic":
                yield pc, "panic", r
                continue
            yield pc, z3.And(r.d == 1, r.p["Some"][0] == expect), "IntervalYM::%s signed accessor" % name


# ------------------------------------------------------------------------------------- C16
def od_of(u):
    return Struct([ts_of(u)], "oracle::Date")


def s16_floor(E):
    """every timestamp: converting to the Oracle-style date floors to the whole second"""
    u = E.int_in("u", "i64", TS_MIN, TS_MAX)
    for k, pc, r in run(E, "from", ["timestamp::Timestamp"], [ts_of(u)], ret="oracle::Date"):
        if k == "panic":
            yield pc, "panic", r
            continue
        x = r.f[0].f[0]
        yield pc, z3.And(x % 1_000_000 == 0, x <= u, u < x + 1_000_000, x >= TS_MIN), "From<Timestamp> floors toward earlier time"


def s16_new(E):
    n = E.int_in("n", "i32", DAY_MIN, DAY_MAX)
    t = E.int_in("t", "i64", 0, D - 1)
    f = [x for x in E.by_last["new"] if x.name.startswith("oracle::")]
    if len(f) != 1:
        raise Unsupported("oracle Date::new not found")
    for pc, out in E.run(f[0], [date_of(n), time_of(t)], []):
        if out[0] == "panic":
            yield pc, "panic", out[1]
            continue
        x = out[1].f[0].f[0]
        yield pc, z3.And(x == n * D + t - t % 1_000_000, x % 1_000_000 == 0), "OracleDate::new drops the sub-second part"


def s16_try_from_usecs(E):
    u = E.int_in("u", "i64")
    f = [x for x in E.by_last["try_from_usecs"] if x.name.startswith("oracle::")]
    for pc, out in E.run(f[0], [u], []):
        if out[0] == "panic":
            yield pc, "panic", out[1]
            continue
        r = out[1]
        good = z3.And(u >= TS_MIN, u <= TS_MAX, u % 1_000_000 == 0)
        if "Ok" in r.p:
            yield pc, z3.And(is_ok(r) == good, z3.Implies(is_ok(r), ok_payload(r).f[0].f[0] == u)), "try_from_usecs accepts exactly in-range whole seconds"
        else:
            yield pc, z3.And(z3.Not(good), r.p["Err"][0].d == ERR["DateOutOfRange"]), "try_from_usecs error"


# ------------------------------------------------------------------------------------- C05 / C02
# TryFrom<NaiveDateTime>: the value the parsed fields denote, with the microsecond carry.
def naive(E, ylo=-999_999_999, yhi=999_999_999):
    y = E.int_in("year", "i32", ylo, yhi)
    mo = E.int_in("month", "u32")
    d = E.int_in("day", "u32")
    h = E.int_in("hour", "u32")
    mi = E.int_in("minute", "u32")
    s = E.int_in("sec", "u32")
    us = E.int_in("usec", "u32")
    neg = E.bool_in("negative")
    ampm = Enum(0, {}, "Option")  # consumed by the field loop, not by the conversions
    st = Struct([y, mo, d, h, mi, s, us, ampm, neg], "format::NaiveDateTime")
    return st, (y, mo, d, h, mi, s, us, neg)


def days_before_year(y):
    y1 = y - 1
    return y1 * 365 + y1 / 4 - y1 / 100 + y1 / 400


def doy(y, m, d):
    feb = z3.If(leap(y), 29, 28)
    before = z3.If(m == 1, 0, z3.If(m == 2, 31, z3.If(m == 3, 31 + feb, z3.If(m == 4, 62 + feb, z3.If(m == 5, 92 + feb,
             z3.If(m == 6, 123 + feb, z3.If(m == 7, 153 + feb, z3.If(m == 8, 184 + feb, z3.If(m == 9, 215 + feb,
             z3.If(m == 10, 245 + feb, z3.If(m == 11, 276 + feb, 306 + feb)))))))))))
    return before + d


def daynum(y, m, d):
    """days since 1970-01-01 of a real date, counted from 0001-01-01 (no Julian-day formula)"""
    return days_before_year(y) + doy(y, m, d) - 1 + DAY_MIN


def err_is(r, name):
    return z3.And(r.d == 1, r.p["Err"][0].d == ERR[name]) if "Err" in r.p else z3.BoolVal(False)


def ymd_error(r, y, mo, d):
    """the documented error precedence for an invalid (y, m, d)"""
    return z3.If(z3.Or(y < 1, y > 9999), err_is(r, "DateOutOfRange"),
                 z3.If(z3.Or(mo < 1, mo > 12), err_is(r, "InvalidMonth"),
                       z3.If(z3.Or(d < 1, d > 31), err_is(r, "InvalidDay"), err_is(r, "InvalidDate"))))


def hms_error(r, h, mi, s):
    return z3.If(h >= 24, err_is(r, "TimeOutOfRange"), z3.If(mi >= 60, err_is(r, "InvalidMinute"), err_is(r, "InvalidSecond")))


def conv(E, ret, st):
    f = E.find("try_from", ["format::NaiveDateTime"], "std::result::Result<%s, error::Error>" % ret)
    for pc, out in E.run(f, [st], []):
        yield out[0], pc, out[1]


def s05_conv_date(E, ylo=-999_999_999, yhi=999_999_999):
    st, (y, mo, d, h, mi, s, us, neg) = naive(E, ylo, yhi)
    for k, pc, r in conv(E, "date::Date", st):
        if k == "panic":
            yield pc, "panic", r
            continue
        ok = valid_ymd(y, mo, d)
        if "Ok" in r.p:
            yield pc, z3.If(ok, z3.And(is_ok(r), ok_payload(r).f[0] == daynum(y, mo, d)), ymd_error(r, y, mo, d)), "Date from fields"
        else:
            yield pc, z3.And(z3.Not(ok), ymd_error(r, y, mo, d)), "Date from fields (error)"


def s05_conv_time(E):
    st, (y, mo, d, h, mi, s, us, neg) = naive(E)
    for k, pc, r in conv(E, "time::Time", st):
        if k == "panic":
            yield pc, "panic", r
            continue
        fields = z3.And(h < 24, mi < 60, s < 60)
        total = h * 3_600_000_000 + mi * 60_000_000 + s * 1_000_000 + us
        exp_ok = z3.And(fields, total < D)
        val = ok_payload(r).f[0] == total if "Ok" in r.p else z3.BoolVal(False)
        yield pc, z3.If(exp_ok, z3.And(is_ok(r), val),
                        z3.If(fields, err_is(r, "TimeOutOfRange"), hms_error(r, h, mi, s))), "Time from fields with microsecond carry"


def s05_conv_ts(E, ylo=-999_999_999, yhi=999_999_999):
    st, (y, mo, d, h, mi, s, us, neg) = naive(E, ylo, yhi)
    for k, pc, r in conv(E, "timestamp::Timestamp", st):
        if k == "panic":
            yield pc, "panic", r
            continue
        dok = valid_ymd(y, mo, d)
        fields = z3.And(h < 24, mi < 60, s < 60)
        total = daynum(y, mo, d) * D + h * 3_600_000_000 + mi * 60_000_000 + s * 1_000_000 + us
        exp_ok = z3.And(dok, fields, total <= TS_MAX)
        val = ok_payload(r).f[0] == total if "Ok" in r.p else z3.BoolVal(False)
        yield pc, z3.If(exp_ok, z3.And(is_ok(r), val),
                        z3.If(z3.Not(dok), ymd_error(r, y, mo, d),
                              z3.If(z3.Not(fields), hms_error(r, h, mi, s), err_is(r, "DateOutOfRange")))), "Timestamp from fields with carry"


def s05_conv_od(E):
    st, (y, mo, d, h, mi, s, us, neg) = naive(E)
    for k, pc, r in conv(E, "oracle::Date", st):
        if k == "panic":
            yield pc, "panic", r
            continue
        dok = valid_ymd(y, mo, d)
        fields = z3.And(h < 24, mi < 60, s < 60)
        total = daynum(y, mo, d) * D + h * 3_600_000_000 + mi * 60_000_000 + s * 1_000_000 + us
        exp_ok = z3.And(dok, fields, total <= TS_MAX)
        val = ok_payload(r).f[0].f[0] == total - total % 1_000_000 if "Ok" in r.p else z3.BoolVal(False)
        yield pc, z3.If(exp_ok, z3.And(is_ok(r), val), r.d == 1), "OracleDate from fields: timestamp value floored to the second"


def s05_conv_ym(E):
    st, (y, mo, d, h, mi, s, us, neg) = naive(E)
    E.assume(z3.If(neg, y <= 0, y >= 0))
    for k, pc, r in conv(E, "interval::IntervalYM", st):
        if k == "panic":
            yield pc, "panic", r
            continue
        ay = z3.If(y < 0, -y, y)
        months = ay * 12 + mo
        in_range = z3.Or(ay < 178_000_000, z3.And(ay == 178_000_000, mo == 0))
        exp_ok = z3.And(in_range, mo < 12)
        val = ok_payload(r).f[0] == z3.If(neg, -months, months) if "Ok" in r.p else z3.BoolVal(False)
        yield pc, z3.If(exp_ok, z3.And(is_ok(r), val),
                        z3.If(z3.Not(in_range), err_is(r, "IntervalOutOfRange"), err_is(r, "InvalidMonth"))), "IntervalYM from sign, years, months"


def s05_conv_dt(E):
    st, (y, mo, d, h, mi, s, us, neg) = naive(E)
    for k, pc, r in conv(E, "interval::IntervalDT", st):
        if k == "panic":
            yield pc, "panic", r
            continue
        fields = z3.And(h < 24, mi < 60, s < 60, us <= 1_000_000)
        total = d * D + h * 3_600_000_000 + mi * 60_000_000 + s * 1_000_000 + us
        exp_ok = z3.And(fields, d <= 100_000_000, total <= DT_MAX)
        val = ok_payload(r).f[0] == z3.If(neg, -total, total) if "Ok" in r.p else z3.BoolVal(False)
        yield pc, z3.If(exp_ok, z3.And(is_ok(r), val), r.d == 1), "IntervalDT from sign and fields with the microsecond carry"
        # the statement's own example: a fraction that rounds up to a whole second is carried
        yield pc, z3.Implies(z3.And(us == 1_000_000, h < 24, mi < 60, s < 60, d < 100_000_000), is_ok(r)), "carry of 1000000 us is accepted"


def s05_conv_od_contract(E):
    """modular: Timestamp::try_from is replaced by its contract (proved by s05_conv_ts)"""
    st, (y, mo, d, h, mi, s, us, neg) = naive(E, 1, 9999)
    dok = valid_ymd(y, mo, d)
    fields = z3.And(h < 24, mi < 60, s < 60)
    total = daynum(y, mo, d) * D + h * 3_600_000_000 + mi * 60_000_000 + s * 1_000_000 + us
    exp_ok = z3.And(dok, fields, total <= TS_MAX)
    tv = z3.Int("ts_value")
    E.assume(z3.Implies(exp_ok, tv == total))
    herr = E.int_in("havoc_err", "u8", 0, 15)

    def stub(eng, args, pcs, callee):
        if "Timestamp" not in callee:
            raise Unsupported("unexpected try_from " + callee)
        yield pcs, ("ret", Enum(z3.If(exp_ok, 0, 1), {"Ok": [ts_of(tv)], "Err": [Enum(herr, {}, "error::Error")]}, "Result"))
    E.stubs["try_from"] = (lambda c: True, stub)
    f = E.find("try_from", ["format::NaiveDateTime"], "std::result::Result<oracle::Date, error::Error>")
    for pc, out in E.run(f, [st], []):
        if out[0] == "panic":
            yield pc, "panic", out[1]
            continue
        r = out[1]
        val = ok_payload(r).f[0].f[0] == total - total % 1_000_000 if "Ok" in r.p else z3.BoolVal(False)
        yield pc, z3.If(exp_ok, z3.And(is_ok(r), val), r.d == 1), "OracleDate from fields = denoted timestamp floored to the second"


s05_conv_od = s05_conv_od_contract

# ------------------------------------------------------------------------------------- C16 / C17
OD_METHODS = ["trunc_century", "trunc_year", "trunc_iso_year", "trunc_quarter", "trunc_month", "trunc_week",
              "trunc_iso_week", "trunc_month_start_week", "trunc_day", "trunc_sunday_start_week", "trunc_hour",
              "trunc_minute", "round_century", "round_year", "round_iso_year", "round_quarter", "round_month",
              "round_week", "round_iso_week", "round_month_start_week", "round_day", "round_sunday_start_week",
              "round_hour", "round_minute", "add_interval_ym", "sub_interval_ym", "last_day_of_month"]


def floor_sec(u):
    return u - u % 1_000_000


def s17_od_delegation(E, which):
    """An Oracle-style date behaves as the timestamp of its whole second: the operation number
    `which` applied through OracleDate is the Timestamp operation on the same instant, floored to
    the second, errors passed through.  The Timestamp operation itself is havoc'd here (it is
    decided by the C09/C10/C11 obligations); what is decided is the delegation and the flooring."""
    name = OD_METHODS[which]
    k = E.int_in("secs", "i64", TS_MIN // 1_000_000, TS_MAX // 1_000_000)
    u = k * 1_000_000
    months = E.int_in("months", "i32", -YM_MAX, YM_MAX)
    hu = E.int_in("havoc_ts", "i64", TS_MIN, TS_MAX)
    hok = E.bool_in("havoc_ok")
    herr = E.int_in("havoc_err", "u8", 0, 15)
    called = []

    def stub(eng, args, pcs, callee):
        if "imestamp" not in callee:
            raise Unsupported("unexpected callee " + callee)
        called.append(callee)
        if name == "last_day_of_month":
            yield pcs, ("ret", ts_of(hu))
        else:
            yield pcs, ("ret", Enum(z3.If(hok, 0, 1), {"Ok": [ts_of(hu)], "Err": [Enum(herr, {}, "error::Error")]}, "Result"))
    inner = "add_interval_ym" if name == "sub_interval_ym" else name
    E.stubs[inner] = (lambda c: "imestamp" in c, stub)
    cands = [f for f in E.by_last[name] if f.name.startswith("oracle::")]
    if len(cands) != 1:
        raise Unsupported("oracle %s: %d candidates" % (name, len(cands)))
    args = [od_of(u)]
    if "interval_ym" in name:
        args.append(Struct([months], "interval::IntervalYM"))
    n = 0
    for pc, out in E.run(cands[0], args, []):
        if out[0] == "panic":
            yield pc, "panic", out[1]
            continue
        n += 1
        r = out[1]
        if name == "last_day_of_month":
            yield pc, r.f[0].f[0] == floor_sec(hu), "%s = timestamp result floored" % name
            continue
        okv = ok_payload(r).f[0].f[0] == floor_sec(hu) if "Ok" in r.p else z3.BoolVal(False)
        errv = r.p["Err"][0].d == herr if "Err" in r.p else z3.BoolVal(False)
        yield pc, z3.If(hok, z3.And(r.d == 0, okv), z3.And(r.d == 1, errv)), "%s = timestamp result floored, errors passed through" % name
    if not called:
        raise Unsupported("the Timestamp operation was never called: delegation structure changed")


def s16_interval_dt(E):
    """adding / subtracting a day-time interval = the timestamp result floored to the second"""
    k = E.int_in("secs", "i64", TS_MIN // 1_000_000, TS_MAX // 1_000_000)
    u = k * 1_000_000
    i = E.int_in("i", "i64", -DT_MAX, DT_MAX)
    for name, sg in (("add_interval_dt", 1), ("sub_interval_dt", -1)):
        cands = [f for f in E.by_last[name] if f.name.startswith("oracle::")]
        for pc, out in E.run(cands[0], [od_of(u), dt_of(i)], []):
            if out[0] == "panic":
                yield pc, "panic", out[1]
                continue
            r = out[1]
            exact = u + sg * i
            inr = z3.And(exact >= TS_MIN, exact <= TS_MAX)
            okv = ok_payload(r).f[0].f[0] == floor_sec(exact) if "Ok" in r.p else z3.BoolVal(False)
            yield pc, z3.If(inr, z3.And(r.d == 0, okv), err_is(r, "DateOutOfRange")), "OracleDate::%s = floor(u +- i), DateOutOfRange outside" % name


def s16_add_days(E):
    """add_days: the (havoc'd) timestamp result rounded to the nearest second, ties away from zero"""
    k = E.int_in("secs", "i64", TS_MIN // 1_000_000, TS_MAX // 1_000_000)
    u = k * 1_000_000
    hu = E.int_in("havoc_ts", "i64", TS_MIN, TS_MAX)
    hok = E.bool_in("havoc_ok")
    herr = E.int_in("havoc_err", "u8", 0, 15)
    days = z3.Real("days")

    def stub(eng, args, pcs, callee):
        yield pcs, ("ret", Enum(z3.If(hok, 0, 1), {"Ok": [ts_of(hu)], "Err": [Enum(herr, {}, "error::Error")]}, "Result"))
    E.stubs["add_days"] = (lambda c: "imestamp" in c, stub)
    cands = [f for f in E.by_last["add_days"] if f.name.startswith("oracle::")]
    for pc, out in E.run(cands[0], [od_of(u), days], []):
        if out[0] == "panic":
            yield pc, "panic", out[1]
            continue
        r = out[1]
        x = z3.Int("rounded")
        if "Ok" in r.p:
            x = ok_payload(r).f[0].f[0]
        dist = x - hu
        nearest = z3.And(x % 1_000_000 == 0, dist <= 500_000, dist >= -500_000,
                         z3.Implies(dist == 500_000, hu > 0), z3.Implies(dist == -500_000, hu < 0))
        # the rounded value that must exist in the integers
        lo = hu - hu % 1_000_000
        e = z3.If(hu - lo > 500_000, lo + 1_000_000, z3.If(hu - lo < 500_000, lo, z3.If(hu > 0, lo + 1_000_000, lo)))
        post_ok = z3.If(e <= TS_MAX, z3.And(r.d == 0, nearest, x == e), err_is(r, "DateOutOfRange"))
        errv = r.p["Err"][0].d == herr if "Err" in r.p else z3.BoolVal(False)
        yield pc, z3.If(hok, post_ok, z3.And(r.d == 1, errv)), "OracleDate::add_days rounds the timestamp result to the nearest second"


# ------------------------------------------------------------------------------------- C10 / C11
def s10_ts_clock_units(E):
    """Timestamp trunc/round to day, hour and minute over every valid timestamp (pure microsecond
    arithmetic on top of the split)"""
    u = E.int_in("u", "i64", TS_MIN, TS_MAX)
    n = u / D
    t = u % D
    H, M = 3_600_000_000, 60_000_000
    cases = [("trunc_day", n * D), ("trunc_hour", n * D + (t / H) * H), ("trunc_minute", n * D + (t / M) * M),
             ("round_day", (n + z3.If(t >= D // 2, 1, 0)) * D),
             ("round_hour", n * D + ((t + H // 2) / H) * H), ("round_minute", n * D + ((t + M // 2) / M) * M)]
    for name, e in cases:
        cands = [f for f in E.by_last[name] if f.name.startswith("timestamp::")]
        if len(cands) != 1:
            raise Unsupported("timestamp %s" % name)
        for pc, out in E.run(cands[0], [ts_of(u)], []):
            if out[0] == "panic":
                yield pc, "panic", out[1]
                continue
            r = out[1]
            okv = ok_payload(r).f[0] == e if "Ok" in r.p else z3.BoolVal(False)
            yield pc, z3.If(e <= TS_MAX, z3.And(r.d == 0, okv), err_is(r, "DateOutOfRange")), "Timestamp::%s" % name


# ------------------------------------------------------------------------------------- C15
BIN_TYPES = [("date::Date", "visit_i32", "i32", DAY_MIN, DAY_MAX, 1),
             ("timestamp::Timestamp", "visit_i64", "i64", TS_MIN, TS_MAX, 1),
             ("time::Time", "visit_i64", "i64", 0, D - 1, 1),
             ("interval::IntervalYM", "visit_i32", "i32", -YM_MAX, YM_MAX, 1),
             ("interval::IntervalDT", "visit_i64", "i64", -DT_MAX, DT_MAX, 1),
             ("oracle::Date", "visit_i64", "i64", TS_MIN, TS_MAX, 1_000_000)]


def raw_of(v):
    while isinstance(v, Struct):
        v = v.f[0]
    return v


def s15_binary_decode(E, which):
    """the binary visitor of type number `which`: every integer payload either yields exactly that
    in-range (whole-second) count or an error"""
    ty, meth, ity, lo, hi, unit = BIN_TYPES[which]
    v = E.int_in("payload", ity)
    cands = [f for f in E.by_last[meth] if f.name.startswith("serialize::") and ("Result<%s," % ty) in f.ret]
    if len(cands) != 1:
        raise Unsupported("visitor %s for %s: %d candidates" % (meth, ty, len(cands)))
    visitor = Struct([], "visitor")
    for pc, out in E.run(cands[0], [visitor, v], []):
        if out[0] == "panic":
            yield pc, "panic", out[1]
            continue
        r = out[1]
        good = z3.And(v >= lo, v <= hi, v % unit == 0)
        okv = raw_of(ok_payload(r)) == v if "Ok" in r.p else z3.BoolVal(False)
        yield pc, z3.If(good, z3.And(r.d == 0, okv), r.d == 1), "binary payload -> in-range value or error (%s)" % ty


# ------------------------------------------------------------------------------------- C09
def s09_add_months(E):
    """Month carry of add_interval_ym for EVERY real date x EVERY month offset in one go.  The
    (y, m, d) extraction is replaced by its contract (any real date - C01 decides that extract
    returns the date's own triple); what is decided here is the year/month carry by floor division,
    the day kept as is, and the error exactly when the target month has no such day or the year
    leaves 1..=9999."""
    y = E.int_in("y", "i32", 1, 9999)
    m = E.int_in("m", "u32", 1, 12)
    d = E.int_in("d", "u32", 1, 31)
    k = E.int_in("k", "i32", -YM_MAX, YM_MAX)
    E.assume(d <= dim(y, m))
    n = z3.Int("self_days")
    E.assume(n >= DAY_MIN, n <= DAY_MAX)

    def stub(eng, args, pcs, callee):
        yield pcs, ("ret", Struct([y, m, d]))
    E.stubs["extract"] = (lambda c: "Date" in c, stub)
    f = E.find("add_interval_ym_internal", ["date::Date", "interval::IntervalYM"])
    d2j = E.find("date2julian", ["i32", "u32", "u32"])
    idx = 12 * y + (m - 1) + k          # months since year 0
    y2, m2 = idx / 12, idx % 12 + 1      # floor division
    for pc, out in E.run(f, [date_of(n), Struct([k], "interval::IntervalYM")], []):
        if out[0] == "panic":
            yield pc, "panic", out[1]
            continue
        r = out[1]
        ok = z3.And(y2 >= 1, y2 <= 9999, d <= dim(y2, m2))
        if "Ok" in r.p:
            for pc2, o2 in E.run(d2j, [y2, m2, d], pc + [ok]):
                if o2[0] == "panic":
                    continue
                yield pc2, z3.And(r.d == 0, ok_payload(r).f[0] == o2[1] - EJ), "same day in the month k months away"
            yield pc, z3.Implies(z3.Not(ok), r.d == 1), "error when the target month has no such day / year out of range"
        else:
            yield pc, z3.Not(ok), "error only when the target month has no such day / year out of range"


# ------------------------------------------------------------------------------------- C08 / C17
def res_ts(r, exact):
    """Result<Timestamp>: Ok(exact) iff exact in range, else DateOutOfRange"""
    inr = z3.And(exact >= TS_MIN, exact <= TS_MAX)
    okv = ok_payload(r).f[0] == exact if "Ok" in r.p else z3.BoolVal(False)
    return z3.If(inr, z3.And(r.d == 0, okv), err_is(r, "DateOutOfRange"))


def s08_date_usecs(E):
    """Date (= the timestamp at its midnight) +- day-time interval / time of day, differences"""
    n = E.int_in("n", "i32", DAY_MIN, DAY_MAX)
    i = E.int_in("i", "i64", -DT_MAX, DT_MAX)
    t = E.int_in("t", "i64", 0, D - 1)
    u = E.int_in("u", "i64", TS_MIN, TS_MAX)
    base = n * D
    dt, tm, ts, dd = dt_of(i), time_of(t), ts_of(u), date_of(n)
    for name, arg, aty, exact in (("add_interval_dt", dt, "interval::IntervalDT", base + i),
                                  ("sub_interval_dt", dt, "interval::IntervalDT", base - i),
                                  ("sub_time", tm, "time::Time", base - t)):
        for k, pc, r in run(E, name, ["date::Date", aty], [dd, arg]):
            if k == "panic":
                yield pc, "panic", r
                continue
            yield pc, res_ts(r, exact), "Date::%s = midnight +- operand, exactly range-checked" % name
    for k, pc, r in run(E, "add_time", ["date::Date", "time::Time"], [dd, tm]):
        if k == "panic":
            yield pc, "panic", r
            continue
        yield pc, r.f[0] == base + t, "Date::add_time"
    for k, pc, r in run(E, "sub_timestamp", ["date::Date", "timestamp::Timestamp"], [dd, ts]):
        if k == "panic":
            yield pc, "panic", r
            continue
        yield pc, z3.And(r.f[0] == base - u, r.f[0] >= -DT_MAX, r.f[0] <= DT_MAX), "Date::sub_timestamp exact difference"
    for k, pc, r in run(E, "sub_date", ["timestamp::Timestamp", "date::Date"], [ts, dd]):
        if k == "panic":
            yield pc, "panic", r
            continue
        yield pc, r.f[0] == u - base, "Timestamp::sub_date exact difference"
    for k, pc, r in run(E, "from", ["date::Date"], [dd], ret="timestamp::Timestamp"):
        if k == "panic":
            yield pc, "panic", r
            continue
        yield pc, r.f[0] == base, "Timestamp::from(Date) is its midnight"


def s08_ts_usecs(E):
    a = E.int_in("a", "i64", TS_MIN, TS_MAX)
    i = E.int_in("i", "i64", -DT_MAX, DT_MAX)
    t = E.int_in("t", "i64", 0, D - 1)
    b = E.int_in("b", "i64", TS_MIN, TS_MAX)
    for name, arg, aty, exact in (("add_interval_dt", dt_of(i), "interval::IntervalDT", a + i),
                                  ("sub_interval_dt", dt_of(i), "interval::IntervalDT", a - i),
                                  ("add_time", time_of(t), "time::Time", a + t),
                                  ("sub_time", time_of(t), "time::Time", a - t)):
        for k, pc, r in run(E, name, ["timestamp::Timestamp", aty], [ts_of(a), arg]):
            if k == "panic":
                yield pc, "panic", r
                continue
            yield pc, res_ts(r, exact), "Timestamp::%s exact, exactly range-checked" % name
    for k, pc, r in run(E, "sub_timestamp", ["timestamp::Timestamp", "timestamp::Timestamp"], [ts_of(a), ts_of(b)]):
        if k == "panic":
            yield pc, "panic", r
            continue
        yield pc, z3.And(r.f[0] == a - b, r.f[0] >= -DT_MAX, r.f[0] <= DT_MAX), "Timestamp::sub_timestamp exact difference"


# ------------------------------------------------------------------------------------- C10 / C11 (Date)
def merged(E, name, ptypes, args):
    """value of a (panic-free on these arguments) function as one expression: paths merged by ite"""
    res = None
    for k, pc, v in run(E, name, ptypes, args):
        if k == "panic":
            continue
        cond = z3.And(*pc) if pc else z3.BoolVal(True)
        res = v if res is None else z3.If(cond, v, res)
    return res


def dn(E, y, m, d):
    """day number of a triple through the crate's own forward conversion (C01 ties it to the calendar)"""
    return merged(E, "date2julian", ["i32", "u32", "u32"], [y, m, d]) - EJ


def wd_of(n):
    return (n + 4) % 7 + 1  # Sunday = 1


def iso_start(E, y):
    j4 = dn(E, y, z3.IntVal(1), z3.IntVal(4))
    return j4 - (wd_of(j4) + 5) % 7


DATE_UNITS = ["century", "year", "iso_year", "quarter", "month", "week", "iso_week", "month_start_week", "day",
              "sunday_start_week", "hour", "minute"]


def date_ctx(E, ylo=1, yhi=9999):
    y = E.int_in("y", "i32", ylo, yhi)
    m = E.int_in("m", "u32", 1, 12)
    d = E.int_in("d", "u32", 1, 31)
    E.assume(d <= dim(y, m))
    n = dn(E, y, m, d)

    def stub(eng, args, pcs, callee):
        # contract of Date::extract on the date under test (C01); other dates are not decomposed here
        a = args[0].f[0]
        yield pcs + [a == n], ("ret", Struct([y, m, d]))
    E.stubs["extract"] = (lambda c: "date::Date" in c or "Date::extract" in c, stub)
    return y, m, d, n


def o_trunc(E, unit, y, m, d, n):
    wd = wd_of(n)
    one = z3.IntVal(1)
    if unit == "century":
        return dn(E, y - (y - 1) % 100, one, one)
    if unit == "year":
        return dn(E, y, one, one)
    if unit == "iso_year":
        s0, s1, sm = iso_start(E, y), iso_start(E, y + 1), iso_start(E, y - 1)
        return z3.If(n < s0, sm, z3.If(n >= s1, s1, s0))
    if unit == "quarter":
        return dn(E, y, (m - 1) / 3 * 3 + 1, one)
    if unit == "month":
        return dn(E, y, m, one)
    if unit == "week":
        # 7-day blocks counted from 1 January of the date's own year
        return n - (n - dn(E, y, one, one)) % 7
    if unit == "iso_week":
        return n - (wd + 5) % 7
    if unit == "month_start_week":
        return n - (d - 1) % 7
    if unit == "sunday_start_week":
        return n - (wd - 1)
    return n


def s10_date(E, which, ylo=1, yhi=9999):
    """Date truncation, unit number `which`, for EVERY real date: the greatest unit boundary not
    after it, DateOutOfRange iff that boundary precedes 0001-01-01.  Date::extract is replaced by its
    contract for the date under test (C01 decides it)."""
    unit = DATE_UNITS[which]
    y, m, d, n = date_ctx(E, ylo, yhi)
    b = o_trunc(E, unit, y, m, d, n)
    cands = [f for f in E.by_last["trunc_" + unit] if f.name.startswith("date::")]
    for pc, out in E.run(cands[0], [date_of(n)], []):
        if out[0] == "panic":
            yield pc, "panic", out[1]
            continue
        r = out[1]
        okv = ok_payload(r).f[0] == b if "Ok" in r.p else z3.BoolVal(False)
        yield pc, z3.If(b >= DAY_MIN, z3.And(r.d == 0, okv, b <= n), err_is(r, "DateOutOfRange")), "Date::trunc_%s = start of the unit containing the date" % unit


def o_round(E, unit, y, m, d, n, y00_up):
    wd = wd_of(n)
    one = z3.IntVal(1)
    BIG = z3.IntVal(10 ** 9)

    def week(off):
        return z3.If(off >= 4, n + (7 - off), n - off)
    if unit == "century":
        c = y - (y - 1) % 100
        pos = y - c + 1
        up = z3.If(pos == 100, z3.BoolVal(y00_up), pos >= 51)
        return z3.If(up, z3.If(c + 100 > 9999, BIG, dn(E, c + 100, one, one)), dn(E, c, one, one))
    if unit == "year":
        return z3.If(m >= 7, z3.If(y == 9999, BIG, dn(E, y + 1, one, one)), dn(E, y, one, one))
    if unit == "iso_year":
        return z3.If(m >= 7, z3.If(y == 9999, BIG, iso_start(E, y + 1)), o_trunc(E, "iso_year", y, m, d, n))
    if unit == "quarter":
        q1 = (m - 1) / 3 * 3 + 1
        up = z3.Or(m > q1 + 1, z3.And(m == q1 + 1, d >= 16))
        nxt = z3.If(q1 == 10, z3.If(y == 9999, BIG, dn(E, y + 1, one, one)), dn(E, y, q1 + 3, one))
        return z3.If(up, nxt, dn(E, y, q1, one))
    if unit == "month":
        nxt = z3.If(m == 12, z3.If(y == 9999, BIG, dn(E, y + 1, one, one)), dn(E, y, m + 1, one))
        return z3.If(d >= 16, nxt, dn(E, y, m, one))
    if unit == "week":
        return week((n - dn(E, y, one, one)) % 7)
    if unit == "iso_week":
        return week((wd + 5) % 7)
    if unit == "month_start_week":
        return week((d - 1) % 7)
    if unit == "sunday_start_week":
        return week(wd - 1)
    return n


def s11_date(E, which, ylo=1, yhi=9999, y00_mode=0):
    """Date rounding, unit number `which`, for EVERY real date: the documented neighbour,
    DateOutOfRange iff it lies after 9999-12-31.  y00_mode: 0 = years divisible by 100 excluded (for
    the century unit), 1 = only those years with the stated rule (known finding), 2 = only those
    years with the behaviour pinned by the repository's own test."""
    unit = DATE_UNITS[which]
    y, m, d, n = date_ctx(E, ylo, yhi)
    if unit == "century":
        E.assume((y % 100 == 0) if y00_mode else (y % 100 != 0))
    b = o_round(E, unit, y, m, d, n, y00_mode != 2)
    cands = [f for f in E.by_last["round_" + unit] if f.name.startswith("date::")]
    for pc, out in E.run(cands[0], [date_of(n)], []):
        if out[0] == "panic":
            yield pc, "panic", out[1]
            continue
        r = out[1]
        okv = ok_payload(r).f[0] == b if "Ok" in r.p else z3.BoolVal(False)
        # the chosen boundary must exist: before 0001-01-01 (week units of the first three days) is an
        # error just as after 9999-12-31 is
        yield pc, z3.If(z3.And(b >= DAY_MIN, b <= DAY_MAX), z3.And(r.d == 0, okv), err_is(r, "DateOutOfRange")), "Date::round_%s = the documented neighbour" % unit


def s09_ts_add_months(E):
    """Timestamp +- year-month interval = (date part +- interval) at the same time of day, for
    every timestamp.  The date-level month arithmetic is an uninterpreted function of its two
    arguments here (s09_add_months decides it), so passing anything but the timestamp's own date
    part and the (negated) interval is a counterexample."""
    u = E.int_in("u", "i64", TS_MIN, TS_MAX)
    k = E.int_in("k", "i32", -YM_MAX, YM_MAX)
    E.hints += [k == 12, u >= -30000 * D, u <= 50000 * D]
    F = z3.Function("ym_days", z3.IntSort(), z3.IntSort(), z3.IntSort())
    G = z3.Function("ym_ok", z3.IntSort(), z3.IntSort(), z3.BoolSort())
    H = z3.Function("ym_err", z3.IntSort(), z3.IntSort(), z3.IntSort())
    called = []

    def stub(eng, args, pcs, callee):
        a, b = args[0].f[0], args[1].f[0]
        called.append(1)
        yield pcs + [F(a, b) >= DAY_MIN, F(a, b) <= DAY_MAX, H(a, b) >= 0, H(a, b) <= 15], \
            ("ret", Enum(z3.If(G(a, b), 0, 1), {"Ok": [date_of(F(a, b))], "Err": [Enum(H(a, b), {}, "error::Error")]}, "Result"))
    E.stubs["add_interval_ym_internal"] = (lambda c: True, stub)
    n, t = u / D, u % D
    for name, sg in (("add_interval_ym", 1), ("sub_interval_ym", -1)):
        cands = [f for f in E.by_last[name] if f.name.startswith("timestamp::")]
        for pc, out in E.run(cands[0], [ts_of(u), Struct([k], "interval::IntervalYM")], []):
            if out[0] == "panic":
                yield pc, "panic", out[1]
                continue
            r = out[1]
            okv = ok_payload(r).f[0] == F(n, sg * k) * D + t if "Ok" in r.p else z3.BoolVal(False)
            errv = r.p["Err"][0].d == H(n, sg * k) if "Err" in r.p else z3.BoolVal(False)
            yield pc, z3.If(G(n, sg * k), z3.And(r.d == 0, okv), z3.And(r.d == 1, errv)), \
                "Timestamp::%s = date-level result for (own date part, interval) at the same time of day" % name
    if not called:
        raise Unsupported("date-level month arithmetic not called")


# ------------------------------------------------------------------------------------- C17
def ord_is(o, a, b):
    """Option<Ordering> value equals Some(a cmp b)"""
    inner = o.p["Some"][0] if "Some" in o.p else None
    if inner is None:
        return z3.BoolVal(False)
    return z3.And(o.d == 1, inner.d == z3.If(a < b, -1, z3.If(a == b, 0, 1)))


def s17_cmp(E):
    """mixed-type equality and ordering = comparison of the converted microsecond counts"""
    n = E.int_in("n", "i32", DAY_MIN, DAY_MAX)
    u = E.int_in("u", "i64", TS_MIN, TS_MAX)
    k = E.int_in("secs", "i64", TS_MIN // 1_000_000, TS_MAX // 1_000_000)
    dnv, odv = n * D, k * 1_000_000
    d, ts, od = date_of(n), ts_of(u), od_of(odv)
    pairs = [("&date::Date", d, dnv, "&timestamp::Timestamp", ts, u), ("&timestamp::Timestamp", ts, u, "&date::Date", d, dnv),
             ("&oracle::Date", od, odv, "&timestamp::Timestamp", ts, u), ("&timestamp::Timestamp", ts, u, "&oracle::Date", od, odv),
             ("&oracle::Date", od, odv, "&date::Date", d, dnv), ("&date::Date", d, dnv, "&oracle::Date", od, odv)]
    for ta, a, av, tb, b, bv in pairs:
        for k_, pc, r in run(E, "eq", [ta, tb], [a, b]):
            if k_ == "panic":
                yield pc, "panic", r
                continue
            yield pc, r == (av == bv), "%s == %s" % (ta, tb)
        for k_, pc, r in run(E, "partial_cmp", [ta, tb], [a, b]):
            if k_ == "panic":
                yield pc, "panic", r
                continue
            yield pc, ord_is(r, av, bv), "%s partial_cmp %s" % (ta, tb)


# ------------------------------------------------------------------------------------- C17 / C10 / C11 (Timestamp)
TS_METHODS = ["trunc_century", "trunc_year", "trunc_iso_year", "trunc_quarter", "trunc_month", "trunc_week",
              "trunc_iso_week", "trunc_month_start_week", "trunc_day", "trunc_sunday_start_week",
              "round_century", "round_year", "round_iso_year", "round_quarter", "round_month",
              "round_week", "round_iso_week", "round_month_start_week", "round_sunday_start_week"]


def uf(name, n):
    sig = [z3.IntSort()] * n
    return (z3.Function(name + "_val", *(sig + [z3.IntSort()])), z3.Function(name + "_ok", *(sig + [z3.BoolSort()])),
            z3.Function(name + "_err", *(sig + [z3.IntSort()])))


def s17_ts_delegation(E, which):
    """A timestamp operation is the Date operation on its date part - moved to the next day from
    noon on for the week roundings - at midnight, errors passed through.  The Date-level operations
    are uninterpreted functions of their arguments here (they are decided by s10_date / s11_date /
    c11_date), so calling them with anything but the right date (and year / day of month) is a
    counterexample.  Decided for every valid timestamp."""
    name = TS_METHODS[which]
    u = E.int_in("u", "i64", TS_MIN, TS_MAX)
    n, t = u / D, u % D
    inner = {"round_week": "round_week_internal", "round_month_start_week": "round_month_start_week_internal"}.get(name, name)
    nargs = 2 if inner.endswith("_internal") else 1
    V, OK, ER = uf(inner, nargs)
    Y = z3.Function("year_of", z3.IntSort(), z3.IntSort())
    M = z3.Function("month_of", z3.IntSort(), z3.IntSort())
    Dd = z3.Function("day_of", z3.IntSort(), z3.IntSort())
    called = []

    def ints(args):
        out = []
        for a in args:
            while isinstance(a, Struct):
                a = a.f[0]
            out.append(a)
        return out

    def stub(eng, args, pcs, callee):
        a = ints(args)
        called.append(callee)
        yield pcs + [V(*a) >= DAY_MIN, V(*a) <= DAY_MAX, ER(*a) >= 0, ER(*a) <= 15], \
            ("ret", Enum(z3.If(OK(*a), 0, 1), {"Ok": [date_of(V(*a))], "Err": [Enum(ER(*a), {}, "error::Error")]}, "Result"))

    def stub_extract(eng, args, pcs, callee):
        a = ints(args)[0]
        yield pcs + [Y(a) >= 1, Y(a) <= 9999, M(a) >= 1, M(a) <= 12, Dd(a) >= 1, Dd(a) <= 31], ("ret", Struct([Y(a), M(a), Dd(a)]))
    E.stubs[inner] = (lambda c: "date::Date" in c or "Date::" in c, stub)
    E.stubs["extract"] = (lambda c: "date::Date" in c or c.endswith("Date::extract"), stub_extract)
    cands = [f for f in E.by_last[name] if f.name.startswith("timestamp::")]
    if len(cands) != 1:
        raise Unsupported("timestamp %s" % name)
    week_round = name in ("round_week", "round_iso_week", "round_month_start_week", "round_sunday_start_week")
    n2 = n + z3.If(t >= D // 2, 1, 0) if week_round else n
    if name == "round_week":
        eargs = [n2, Y(n2)]
    elif name == "round_month_start_week":
        eargs = [n2, Dd(n2)]
    else:
        eargs = [n2]
    for pc, out in E.run(cands[0], [ts_of(u)], []):
        if out[0] == "panic":
            yield pc, "panic", out[1]
            continue
        r = out[1]
        if name == "trunc_day":
            yield pc, z3.And(r.d == 0, ok_payload(r).f[0] == n * D), "Timestamp::trunc_day = midnight of its date"
            continue
        okv = ok_payload(r).f[0] == V(*eargs) * D if "Ok" in r.p else z3.BoolVal(False)
        errv = r.p["Err"][0].d == ER(*eargs) if "Err" in r.p else z3.BoolVal(False)
        shifted_out = n2 > DAY_MAX
        post = z3.If(shifted_out, err_is(r, "DateOutOfRange"),
                     z3.If(OK(*eargs), z3.And(r.d == 0, okv), z3.And(r.d == 1, errv)))
        yield pc, post, "Timestamp::%s = Date::%s on the (noon-shifted) date part, at midnight" % (name, inner)
    if name != "trunc_day" and not called:
        raise Unsupported("the Date operation was never called")


# ------------------------------------------------------------------------------------- constructor grids (second engine)
def s01_accept(E):
    """every (i32, u32, u32): try_from_ymd / validate_ymd / is_valid accept exactly the real dates of
    years 1..=9999, with the documented error precedence; every i32 day number for try_from_days"""
    y = E.int_in("y", "i32")
    m = E.int_in("m", "u32")
    d = E.int_in("d", "u32")
    ok = valid_ymd(y, m, d)
    for k, pc, r in run(E, "try_from_ymd", ["i32", "u32", "u32"], [y, m, d]):
        if k == "panic":
            yield pc, "panic", r
            continue
        yield pc, z3.If(ok, r.d == 0, ymd_error(r, y, m, d)), "try_from_ymd accept/reject and error precedence"
        if "Ok" in r.p:
            yield pc, z3.Implies(r.d == 0, z3.And(ok_payload(r).f[0] >= DAY_MIN, ok_payload(r).f[0] <= DAY_MAX)), "accepted dates are in range"
    for k, pc, r in run(E, "validate_ymd", ["i32", "u32", "u32"], [y, m, d]):
        if k == "panic":
            yield pc, "panic", r
            continue
        yield pc, z3.If(ok, r.d == 0, ymd_error(r, y, m, d)), "validate_ymd agrees"
    f = [x for x in E.by_last["is_valid"] if x.name.startswith("date::")]
    for pc, out in E.run(f[0], [y, m, d], []):
        if out[0] == "panic":
            yield pc, "panic", out[1]
            continue
        yield pc, out[1] == ok, "Date::is_valid agrees"
    n = E.int_in("n", "i32")
    for k, pc, r in run(E, "try_from_days", ["i32"], [n]):
        if k == "panic":
            yield pc, "panic", r
            continue
        inr = z3.And(n >= DAY_MIN, n <= DAY_MAX)
        okv = ok_payload(r).f[0] == n if "Ok" in r.p else z3.BoolVal(False)
        yield pc, z3.If(inr, z3.And(r.d == 0, okv), err_is(r, "DateOutOfRange")), "try_from_days accepts exactly the in-range day numbers"


def s07_time_ctor(E):
    h = E.int_in("h", "u32")
    mi = E.int_in("mi", "u32")
    s = E.int_in("s", "u32")
    us = E.int_in("us", "u32")
    ok = z3.And(h < 24, mi < 60, s < 60, us < 1_000_000)
    total = h * 3_600_000_000 + mi * 60_000_000 + s * 1_000_000 + us
    for k, pc, r in run(E, "try_from_hms", ["u32", "u32", "u32", "u32"], [h, mi, s, us]):
        if k == "panic":
            yield pc, "panic", r
            continue
        okv = ok_payload(r).f[0] == total if "Ok" in r.p else z3.BoolVal(False)
        err = z3.If(h >= 24, err_is(r, "TimeOutOfRange"), z3.If(mi >= 60, err_is(r, "InvalidMinute"),
                    z3.If(s >= 60, err_is(r, "InvalidSecond"), err_is(r, "InvalidFraction"))))
        yield pc, z3.If(ok, z3.And(r.d == 0, okv), err), "Time::try_from_hms accepts exactly h<24, m<60, s<60, us<1e6"
    f = [x for x in E.by_last["is_valid"] if x.name.startswith("time::")]
    for pc, out in E.run(f[0], [h, mi, s, us], []):
        if out[0] == "panic":
            yield pc, "panic", out[1]
            continue
        yield pc, out[1] == ok, "Time::is_valid agrees"
    t = E.int_in("t", "i64")
    f = [x for x in E.by_last["try_from_usecs"] if x.name.startswith("time::")]
    for pc, out in E.run(f[0], [t], []):
        if out[0] == "panic":
            yield pc, "panic", out[1]
            continue
        r = out[1]
        okv = ok_payload(r).f[0] == t if "Ok" in r.p else z3.BoolVal(False)
        yield pc, z3.If(z3.And(t >= 0, t < D), z3.And(r.d == 0, okv), err_is(r, "TimeOutOfRange")), "Time::try_from_usecs"


def s13_ctor(E):
    yy = E.int_in("yy", "u32")
    mm = E.int_in("mm", "u32")
    okym = z3.And(mm < 12, yy * 12 + mm <= YM_MAX)
    for k, pc, r in run(E, "try_from_ym", ["u32", "u32"], [yy, mm]):
        if k == "panic":
            yield pc, "panic", r
            continue
        okv = ok_payload(r).f[0] == yy * 12 + mm if "Ok" in r.p else z3.BoolVal(False)
        err = z3.If(z3.Or(yy > 178_000_000, z3.And(yy == 178_000_000, mm != 0)), err_is(r, "IntervalOutOfRange"), err_is(r, "InvalidMonth"))
        yield pc, z3.If(okym, z3.And(r.d == 0, okv), err), "IntervalYM::try_from_ym accepts exactly the tuples inside the range"
    for k, pc, r in run(E, "is_valid_ym", ["u32", "u32"], [yy, mm]):
        if k == "panic":
            yield pc, "panic", r
            continue
        yield pc, r == okym, "is_valid_ym agrees"
    km = E.int_in("months", "i32")
    for k, pc, r in run(E, "try_from_months", ["i32"], [km]):
        if k == "panic":
            yield pc, "panic", r
            continue
        okv = ok_payload(r).f[0] == km if "Ok" in r.p else z3.BoolVal(False)
        yield pc, z3.If(z3.And(km >= -YM_MAX, km <= YM_MAX), z3.And(r.d == 0, okv), err_is(r, "IntervalOutOfRange")), "try_from_months"
    d = E.int_in("d", "u32")
    h = E.int_in("h", "u32")
    mi = E.int_in("mi", "u32")
    s = E.int_in("s", "u32")
    us = E.int_in("us", "u32")
    fields = z3.And(h < 24, mi < 60, s < 60, us < 1_000_000)
    total = d * D + h * 3_600_000_000 + mi * 60_000_000 + s * 1_000_000 + us
    okdt = z3.And(fields, total <= DT_MAX)
    for k, pc, r in run(E, "try_from_dhms", ["u32", "u32", "u32", "u32", "u32"], [d, h, mi, s, us]):
        if k == "panic":
            yield pc, "panic", r
            continue
        okv = ok_payload(r).f[0] == total if "Ok" in r.p else z3.BoolVal(False)
        toobig = z3.Or(d > 100_000_000, z3.And(d == 100_000_000, z3.Or(h != 0, mi != 0, s != 0, us != 0)))
        err = z3.If(toobig, err_is(r, "IntervalOutOfRange"), z3.If(h >= 24, err_is(r, "TimeOutOfRange"),
                    z3.If(mi >= 60, err_is(r, "InvalidMinute"), z3.If(s >= 60, err_is(r, "InvalidSecond"), err_is(r, "InvalidFraction")))))
        yield pc, z3.If(okdt, z3.And(r.d == 0, okv), err), "IntervalDT::try_from_dhms accepts exactly the tuples inside the range"
    f = [x for x in E.by_last["is_valid"] if x.name.startswith("interval::")]
    for pc, out in E.run(f[0], [d, h, mi, s, us], []):
        if out[0] == "panic":
            yield pc, "panic", out[1]
            continue
        yield pc, out[1] == okdt, "IntervalDT::is_valid agrees"
    ku = E.int_in("usecs", "i64")
    f = [x for x in E.by_last["try_from_usecs"] if x.name.startswith("interval::")]
    for pc, out in E.run(f[0], [ku], []):
        if out[0] == "panic":
            yield pc, "panic", out[1]
            continue
        r = out[1]
        okv = ok_payload(r).f[0] == ku if "Ok" in r.p else z3.BoolVal(False)
        yield pc, z3.If(z3.And(ku >= -DT_MAX, ku <= DT_MAX), z3.And(r.d == 0, okv), err_is(r, "IntervalOutOfRange")), "IntervalDT::try_from_usecs"


def s08_linear(E):
    n = E.int_in("n", "i32", DAY_MIN, DAY_MAX)
    k = E.int_in("k", "i32")
    n2 = E.int_in("n2", "i32", DAY_MIN, DAY_MAX)
    for name, exact in (("add_days", n + k), ("sub_days", n - k)):
        f = [x for x in E.by_last[name] if x.name.startswith("date::")]
        for pc, out in E.run(f[0], [date_of(n), k], []):
            if out[0] == "panic":
                yield pc, "panic", out[1]
                continue
            r = out[1]
            okv = ok_payload(r).f[0] == exact if "Ok" in r.p else z3.BoolVal(False)
            yield pc, z3.If(z3.And(exact >= DAY_MIN, exact <= DAY_MAX), z3.And(r.d == 0, okv), err_is(r, "DateOutOfRange")), "Date::%s exact, exactly range-checked" % name
    for kk, pc, r in run(E, "sub_date", ["date::Date", "date::Date"], [date_of(n), date_of(n2)]):
        if kk == "panic":
            yield pc, "panic", r
            continue
        yield pc, r == n - n2, "Date::sub_date"
    a = E.int_in("a", "i32", -YM_MAX, YM_MAX)
    b = E.int_in("b", "i32", -YM_MAX, YM_MAX)
    ym = lambda v: Struct([v], "interval::IntervalYM")
    for name, exact in (("add_interval_ym", a + b), ("sub_interval_ym", a - b)):
        for kk, pc, r in run(E, name, ["interval::IntervalYM", "interval::IntervalYM"], [ym(a), ym(b)]):
            if kk == "panic":
                yield pc, "panic", r
                continue
            okv = ok_payload(r).f[0] == exact if "Ok" in r.p else z3.BoolVal(False)
            yield pc, z3.If(z3.And(exact >= -YM_MAX, exact <= YM_MAX), z3.And(r.d == 0, okv), err_is(r, "IntervalOutOfRange")), "IntervalYM::%s" % name
    p = E.int_in("p", "i64", -DT_MAX, DT_MAX)
    q = E.int_in("q", "i64", -DT_MAX, DT_MAX)
    t = E.int_in("t", "i64", 0, D - 1)
    for name, arg, aty, exact in (("add_interval_dt", dt_of(q), "interval::IntervalDT", p + q), ("sub_interval_dt", dt_of(q), "interval::IntervalDT", p - q),
                                  ("sub_time", time_of(t), "time::Time", p - t)):
        for kk, pc, r in run(E, name, ["interval::IntervalDT", aty], [dt_of(p), arg]):
            if kk == "panic":
                yield pc, "panic", r
                continue
            okv = ok_payload(r).f[0] == exact if "Ok" in r.p else z3.BoolVal(False)
            yield pc, z3.If(z3.And(exact >= -DT_MAX, exact <= DT_MAX), z3.And(r.d == 0, okv), err_is(r, "IntervalOutOfRange")), "IntervalDT::%s" % name


def s09_last_day(E):
    """last_day_of_month of a Date / Timestamp: the value moved forward by (month length - day of
    month) whole days, i.e. the final day (28/29/30/31 by the leap rule) of its own month - days of
    one month are consecutive day numbers (C01 step) - with the time of day unchanged."""
    y = E.int_in("y", "i32", 1, 9999)
    m = E.int_in("m", "u32", 1, 12)
    d = E.int_in("d", "u32", 1, 31)
    E.assume(d <= dim(y, m))
    n = E.int_in("n", "i32", DAY_MIN, DAY_MAX)
    t = E.int_in("t", "i64", 0, D - 1)
    # the date's own day number is consistent with its triple: it has room for the rest of the month
    E.assume(n + (dim(y, m) - d) <= DAY_MAX)

    def stub(eng, args, pcs, callee):
        a = args[0].f[0]
        yield pcs + [a == n], ("ret", Struct([y, m, d]))
    E.stubs["extract"] = (lambda c: "date::Date" in c or c.endswith("Date::extract"), stub)
    f = [x for x in E.by_last["last_day_of_month"] if x.name.startswith("date::")]
    for pc, out in E.run(f[0], [date_of(n)], []):
        if out[0] == "panic":
            yield pc, "panic", out[1]
            continue
        yield pc, out[1].f[0] == n + dim(y, m) - d, "Date::last_day_of_month = same month, day = month length"
    f = [x for x in E.by_last["last_day_of_month"] if x.name.startswith("timestamp::")]
    for pc, out in E.run(f[0], [ts_of(n * D + t)], []):
        if out[0] == "panic":
            yield pc, "panic", out[1]
            continue
        yield pc, out[1].f[0] == (n + dim(y, m) - d) * D + t, "Timestamp::last_day_of_month keeps the time of day"


# ------------------------------------------------------------------------------------- C18 (now)
def clock_stubs(E, cy, cm, cd, ch, cmi, cs, cus):
    """chrono is environment: Local::now()/naive_local() are opaque, its field accessors return the
    symbolic clock (which is constrained to a real calendar instant - chrono's documented contract)"""
    def opaque(eng, args, pcs, callee):
        yield pcs, ("ret", Struct([], "clock"))

    def acc(v):
        def f(eng, args, pcs, callee):
            yield pcs, ("ret", v)
        return f
    is_chrono = lambda c: "chrono::" in c
    E.stubs["now"] = (is_chrono, opaque)
    E.stubs["naive_local"] = (is_chrono, opaque)
    for name, v in (("year", cy), ("month", cm), ("day", cd), ("hour", ch), ("minute", cmi), ("second", cs),
                    ("timestamp_subsec_micros", cus)):
        E.stubs[name] = (is_chrono, acc(v))


def s18_now(E):
    """the now() constructors and the time-of-day conversions report the current local date/time,
    for every clock value (any real calendar instant of years 1..=9999, to the microsecond)"""
    cy = E.int_in("cy", "i32", 1, 9999)
    cm = E.int_in("cm", "u32", 1, 12)
    cd = E.int_in("cd", "u32", 1, 31)
    ch = E.int_in("ch", "u32", 0, 23)
    cmi = E.int_in("cmi", "u32", 0, 59)
    cs = E.int_in("cs", "u32", 0, 59)
    cus = E.int_in("cus", "u32", 0, 999_999)
    t = E.int_in("t", "i64", 0, D - 1)
    E.assume(cd <= dim(cy, cm))
    clock_stubs(E, cy, cm, cd, ch, cmi, cs, cus)
    n = dn(E, cy, cm, cd)
    tod = ch * 3_600_000_000 + cmi * 60_000_000 + cs * 1_000_000
    for mod, expect in (("date::", n), ("timestamp::", n * D + tod + cus), ("oracle::", n * D + tod)):
        f = [x for x in E.by_last["now"] if x.name.startswith(mod)]
        if len(f) != 1:
            raise Unsupported("now() in " + mod)
        for pc, out in E.run(f[0], [], []):
            if out[0] == "panic":
                yield pc, "panic", out[1]
                continue
            r = out[1]
            okv = raw_of(ok_payload(r)) == expect if "Ok" in r.p else z3.BoolVal(False)
            yield pc, z3.And(r.d == 0, okv), "%snow() = the current local date/time" % mod
    for ret, expect in (("timestamp::Timestamp", n * D + t), ("oracle::Date", n * D + t - t % 1_000_000)):
        f = E.find("try_from", ["time::Time"], "std::result::Result<%s, error::Error>" % ret)
        for pc, out in E.run(f, [time_of(t)], []):
            if out[0] == "panic":
                yield pc, "panic", out[1]
                continue
            r = out[1]
            okv = raw_of(ok_payload(r)) == expect if "Ok" in r.p else z3.BoolVal(False)
            yield pc, z3.And(r.d == 0, okv), "TryFrom<Time> for %s = that time on the current local date" % ret


def s16_sub_date(E):
    """the difference of two Oracle-style dates is their exact microsecond distance divided by one
    day, computed in f64 (floats are uninterpreted: the claim is the expression, not IEEE rounding)"""
    a = E.int_in("a_secs", "i64", TS_MIN // 1_000_000, TS_MAX // 1_000_000)
    b = E.int_in("b_secs", "i64", TS_MIN // 1_000_000, TS_MAX // 1_000_000)
    fdiv = z3.Function("f64_div", z3.RealSort(), z3.RealSort(), z3.RealSort())
    f = [x for x in E.by_last["sub_date"] if x.name.startswith("oracle::")]
    for pc, out in E.run(f[0], [od_of(a * 1_000_000), od_of(b * 1_000_000)], []):
        if out[0] == "panic":
            yield pc, "panic", out[1]
            continue
        yield pc, out[1] == fdiv(z3.ToReal((a - b) * 1_000_000), z3.ToReal(z3.IntVal(D))), "OracleDate::sub_date = (a - b) microseconds / 86400e6 in f64"
