//@ attach src/format.rs
//! C05 (glue: the parse field loop), C06 (format then parse), C18 (defaults from the clock).
//! The clock is the symbolic stub of `chrono::Local::now` (support.rs): every instant in one query.
//! Texts pushed through the field loop are symbolic ASCII strings of a few bytes; pictures have
//! one to three fields (the per-iteration cost of the loop under CBMC is what bounds this).
#![allow(dead_code, unused_imports)]
use super::*;
#[cfg(not(kani))]
use crate::verif_support::kani;
use crate::verif_support::*;
use crate::{Date as SqlDate, IntervalDT, IntervalYM, OracleDate, Time, Timestamp};
use std::convert::TryFrom;

fn fmt1(a: Field) -> Formatter {
    let mut fields = StackVec::new();
    fields.push(a);
    Formatter { fields, format_exact: false }
}
fn fmt2(a: Field, b: Field) -> Formatter {
    let mut fields = StackVec::new();
    fields.push(a);
    fields.push(b);
    Formatter { fields, format_exact: false }
}
fn fmt3(a: Field, b: Field, c: Field) -> Formatter {
    let mut fields = StackVec::new();
    fields.push(a);
    fields.push(b);
    fields.push(c);
    Formatter { fields, format_exact: false }
}

fn ascii_text<const N: usize>() -> ([u8; N], usize) {
    let buf: [u8; N] = kani::any();
    let len: usize = kani::any();
    kani::assume(len <= N);
    let mut i = 0;
    while i < N {
        kani::assume(buf[i] < 0x80);
        i += 1;
    }
    (buf, len)
}

fn is_ws(b: u8) -> bool {
    b == b' ' || b == b'\t' || b == b'\n' || b == b'\r' || b == 0x0C
}
fn is_dg(b: u8) -> bool {
    b >= b'0' && b <= b'9'
}

/// Reference reader for a text that must be: blanks, optional sign, 1..=max digits, blanks.
/// Returns (negative, value) or None when the text does not denote a number for this field.
fn ref_single_number(s: &[u8], max: usize) -> Option<(bool, i64)> {
    let mut i = 0;
    while i < s.len() && is_ws(s[i]) {
        i += 1;
    }
    let mut neg = false;
    if i < s.len() && (s[i] == b'+' || s[i] == b'-') {
        neg = s[i] == b'-';
        i += 1;
    }
    let start = i;
    let mut v: i64 = 0;
    while i < s.len() && i - start < max && is_dg(s[i]) {
        v = v * 10 + (s[i] - b'0') as i64;
        i += 1;
    }
    if i == start {
        return None;
    }
    while i < s.len() && is_ws(s[i]) {
        i += 1;
    }
    if i != s.len() {
        return None;
    }
    Some((neg, if neg { -v } else { v }))
}


// ------------------------------------------------------------------------------------- C18: now()

//@ unit c18_now prop=C18 tier=thorough clock=1 mem=6 timeout=7200 stubs=chrono::Local::now=>crate::verif_support::stub_local_now bound="every current local instant 1970-01-01..9999-12-31 to the microsecond (symbolic clock): Date::now, Timestamp::now, OracleDate::now, TryFrom<Time> for Timestamp and OracleDate report it (microseconds dropped for the Oracle-style date)"
fn c18_now() {
    let (y, m, d, h, mi, s, us) = any_clock(1970, 9999);
    let tsel: i64 = kani::any();
    kani::assume(tsel >= 0 && tsel < 86_400);
    let n = crate::common::date2julian(y, m, d) - 2_440_588;
    let tod = h as i64 * 3_600_000_000 + mi as i64 * 60_000_000 + s as i64 * 1_000_000;
    match SqlDate::now() {
        Ok(x) => assert!(x.days() == n),
        Err(_) => assert!(false),
    }
    match Timestamp::now() {
        Ok(x) => assert!(x.usecs() == n as i64 * USECS_DAY + tod + us as i64),
        Err(_) => assert!(false),
    }
    match OracleDate::now() {
        Ok(x) => assert!(x.usecs() == n as i64 * USECS_DAY + tod),
        Err(_) => assert!(false),
    }
    // a time of day becomes that time on the current local date (whole seconds here: the
    // sub-second truncation of the Oracle-style date is s16_new)
    let t = mk_time(tsel * 1_000_000);
    match Timestamp::try_from(t) {
        Ok(x) => assert!(x.usecs() == n as i64 * USECS_DAY + tsel * 1_000_000),
        Err(_) => assert!(false),
    }
    kani::cover!(m == 2 && d == 29);
    kani::cover!(y == 9999 && m == 12 && d == 31 && h == 23);
    kani::cover!(y == 1970 && us == 999_999);
}

//@ unit c18_now_early prop=C18 tier=thorough mem=6 timeout=7200 stubs=chrono::Local::now=>crate::verif_support::stub_local_now bound="clock years 1..=1969 (cannot occur through chrono, which panics before the epoch; run because it is free): Date::now and Timestamp::now"
fn c18_now_early() {
    let (y, m, d, h, mi, s, us) = any_clock(1, 1969);
    let n = crate::common::date2julian(y, m, d) - 2_440_588;
    match SqlDate::now() {
        Ok(x) => assert!(x.days() == n),
        Err(_) => assert!(false),
    }
    match Timestamp::now() {
        Ok(x) => assert!(x.usecs() == n as i64 * USECS_DAY + h as i64 * 3_600_000_000 + mi as i64 * 60_000_000 + s as i64 * 1_000_000 + us as i64),
        Err(_) => assert!(false),
    }
    kani::cover!(y == 1);
}

// ------------------------------------------------------------- C05 / C18: single date fields


/// kind: 0 DD, 1 MM (number), 2 YYYY, 3 YYY, 4 YY, 5 Y, 6 DDD
fn date_pic(kind: u8) -> Field {
    match kind {
        0 => Field::Day,
        1 => Field::Month,
        2 => Field::Year(4),
        3 => Field::Year(3),
        4 => Field::Year(2),
        5 => Field::Year(1),
        _ => Field::DayOfYear,
    }
}

//@ unit c18_date_single prop=C18,C05,C03,C02 tier=thorough clock=1 chunks=range:0:6 unwind=14 mem=6 timeout=2400 stubs=chrono::Local::now=>crate::verif_support::stub_local_now,crate::util::try_format=>crate::verif_support::stub_try_format bound="Date::parse with the single-field picture given by the parameter (0 DD, 1 MM, 2 YYYY, 3 YYY, 4 YY, 5 Y, 6 DDD), every ASCII text of length <= 3 (4 for YYYY, 2 for DD, MM and Y), every current local date 1970..9999 (symbolic clock): missing year/month come from the clock, missing day is 1, short years are completed with the leading digits of the current year; invalid results are errors"
fn c18_date_single(kind: u8) {
    // text length: the field's digits plus one more byte (sign, blank or a left-over character)
    match kind {
        2 => date_single_body::<4>(kind),
        0 | 1 | 5 => date_single_body::<2>(kind),
        _ => date_single_body::<3>(kind),
    }
}

//@ unit c18_ddd_pinned prop=C18,C05,C03,C02 chunks=tuples:2024,2,29;1999,12,31 quick=first:1 unwind=7/14 clock=1 mem=5 timeout=3000 stubs=chrono::Local::now=>crate::verif_support::stub_local_now,crate::util::try_format=>crate::verif_support::stub_try_format bound="Date::parse with the picture DDD, the clock pinned to the local date given by the parameters (a leap day / the last day of a common year) at 12:34:56.789012, every ASCII text of length <= 3: year and month-of-year come from the clock year, the month from the day of the year; every other clock date is c18_date_single__v6 (thorough tier)"
fn c18_ddd_pinned(py: i32, pm: u32, pd: u32) {
    let (cy, cm, _, _, _, _, _) = pinned_clock(py, pm, pd);
    date_single_core::<3>(6, cy, cm)
}

//@ unit c18_date_pinned prop=C18,C05,C03,C02 qprops=C18 chunks=tuples:4,1999,12,31;3,1999,12,31;0,1999,12,31;1,1999,12,31;2,1999,12,31;5,1999,12,31;4,2024,2,29;3,2024,2,29;0,2024,2,29;1,2024,2,29;2,2024,2,29;5,2024,2,29 quick=first:2 unwind=7/14 clock=1 mem=5 timeout=2900 stubs=chrono::Local::now=>crate::verif_support::stub_local_now,crate::util::try_format=>crate::verif_support::stub_try_format bound="as c18_date_single for the pictures other than DDD, with the clock pinned to the local date given by the parameters (picture, year, month, day) at 12:34:56.789012 (1999-12-31: century and millennium prefixes differ; 2024-02-29: a leap day) and every ASCII text of the stated lengths; every other clock date is c18_date_single (thorough tier)"
fn c18_date_pinned(kind: u8, py: i32, pm: u32, pd: u32) {
    let (cy, cm, _, _, _, _, _) = pinned_clock(py, pm, pd);
    match kind {
        2 => date_single_core::<4>(kind, cy, cm),
        0 | 1 | 5 => date_single_core::<2>(kind, cy, cm),
        _ => date_single_core::<3>(kind, cy, cm),
    }
}

fn date_single_body<const N: usize>(kind: u8) {
    let (cy, cm, _cd, _, _, _, _) = any_clock(1970, 9999);
    date_single_core::<N>(kind, cy, cm)
}
fn date_single_core<const N: usize>(kind: u8, cy: i32, cm: u32) {
    let (buf, len) = ascii_text::<N>();
    let s = &buf[..len];
    let text = unsafe { std::str::from_utf8_unchecked(s) };
    let fmt = fmt1(date_pic(kind));
    let r: Result<SqlDate> = fmt.parse(text);
    let maxd = match kind {
        0 | 1 => 2,
        2 => 4,
        3 => 3,
        4 => 4,
        5 => 1,
        _ => 3,
    };
    // month names are also accepted where a month number is expected: only the numeric
    // spellings are decided by this unit, a text starting with a letter is skipped
    let mut first = 0;
    while first < len && is_ws(s[first]) {
        first += 1;
    }
    if kind == 1 && first < len && !(is_dg(s[first]) || s[first] == b'+' || s[first] == b'-') {
        std::mem::forget(fmt);
        return;
    }
    let num = ref_single_number(s, maxd);
    let expect: Option<(i32, u32, u32)> = match num {
        None => None,
        Some((neg, v)) => {
            if neg {
                // a sign is accepted by the number reader, but a negative day / month / year /
                // day-of-year (even "-0") never denotes a date
                None
            } else {
                match kind {
                    0 => Some((cy, cm, v as u32)),
                    1 => Some((cy, v as u32, 1)),
                    2 => Some((v as i32, cm, 1)),
                    3 => Some((cy - cy % 1000 + v as i32, cm, 1)),
                    4 => {
                        // YY: up to two digits are completed; three or four digits are a full year
                        let mut digits = 0;
                        let mut i = 0;
                        while i < len {
                            if is_dg(s[i]) {
                                digits += 1;
                            }
                            i += 1;
                        }
                        if digits > 2 {
                            Some((v as i32, cm, 1))
                        } else {
                            Some((cy - cy % 100 + v as i32, cm, 1))
                        }
                    }
                    5 => Some((cy - cy % 10 + v as i32, cm, 1)),
                    _ => {
                        let leap = o_leap(cy);
                        let v = v as u32;
                        if v == 0 || v > if leap { 366 } else { 365 } {
                            None
                        } else {
                            // month and day of the v-th day of the current year (loop-free:
                            // the unwinding bound then only has to cover the text loops)
                            let f = if leap { 29 } else { 28 };
                            let cum = [0, 31, 31 + f, 62 + f, 92 + f, 123 + f, 153 + f, 184 + f, 215 + f, 245 + f, 276 + f, 306 + f];
                            let mut mm = 1;
                            if v > cum[1] { mm = 2; }
                            if v > cum[2] { mm = 3; }
                            if v > cum[3] { mm = 4; }
                            if v > cum[4] { mm = 5; }
                            if v > cum[5] { mm = 6; }
                            if v > cum[6] { mm = 7; }
                            if v > cum[7] { mm = 8; }
                            if v > cum[8] { mm = 9; }
                            if v > cum[9] { mm = 10; }
                            if v > cum[10] { mm = 11; }
                            if v > cum[11] { mm = 12; }
                            let rest = v - cum[(mm - 1) as usize];
                            // the month comes from the day of the year, not from the clock
                            Some((cy, mm, rest))
                        }
                    }
                }
            }
        }
    };
    match expect {
        Some((y, m, d)) if o_valid_ymd(y, m, d) => match r {
            Ok(x) => {
                assert!(x.days() == crate::common::date2julian(y, m, d) - 2_440_588);
                kani::cover!(len == N);
                kani::cover!(len == 1);
            }
            Err(_) => assert!(false),
        },
        _ => {
            assert!(r.is_err());
            kani::cover!(num.is_some());
            kani::cover!(len == 0);
        }
    }
    std::mem::forget(fmt);
}

// ------------------------------------------------------------- C05: single time fields

/// kind: 0 HH24, 1 HH12, 2 MI, 3 SS
fn time_pic(kind: u8) -> Field {
    match kind {
        0 => Field::Hour24,
        1 => Field::Hour12,
        2 => Field::Minute,
        _ => Field::Second,
    }
}

//@ unit c05_time_single prop=C05,C18,C03,C02 chunks=range:0:3 quick=all unwind=8 mem=4 timeout=2400 stubs=chrono::Local::now=>crate::verif_support::stub_local_now,crate::util::try_format=>crate::verif_support::stub_try_format bound="Time::parse with the single-field picture given by the parameter (0 HH24, 1 HH12, 2 MI, 3 SS), every ASCII text of length <= 3: the value denoted, omitted (empty) field = 0 (12 o'clock = 12:00 for HH12), out-of-range values are errors; the clock is never consulted"
fn c05_time_single(kind: u8) {
    any_clock(1970, 9999);
    let (buf, len) = ascii_text::<3>();
    let s = &buf[..len];
    let text = unsafe { std::str::from_utf8_unchecked(s) };
    let fmt = fmt1(time_pic(kind));
    let r: Result<Time> = fmt.parse(text);
    let mut all_ws = true;
    let mut i = 0;
    while i < len {
        if !is_ws(s[i]) {
            all_ws = false;
        }
        i += 1;
    }
    let expect: Option<i64> = if all_ws {
        // omitted trailing time field
        Some(if kind == 1 { 12 * 3_600_000_000 } else { 0 })
    } else {
        match ref_single_number(s, 2) {
            None => None,
            Some((neg, v)) => {
                if neg {
                    None
                } else {
                    match kind {
                        0 => if v < 24 { Some(v * 3_600_000_000) } else { None },
                        1 => if v >= 1 && v <= 12 { Some(v * 3_600_000_000) } else { None },
                        2 => if v < 60 { Some(v * 60_000_000) } else { None },
                        _ => if v < 60 { Some(v * 1_000_000) } else { None },
                    }
                }
            }
        }
    };
    match expect {
        Some(us) => match r {
            Ok(t) => {
                assert!(t.usecs() == us);
                kani::cover!(len == 3);
                kani::cover!(all_ws && len > 0);
            }
            Err(_) => assert!(false),
        },
        None => assert!(r.is_err()),
    }
    assert!(clock_reads() == 0);
    std::mem::forget(fmt);
}

// ------------------------------------------------------------- C18: independence of the clock

//@ unit c18_full_date_no_clock prop=C18 tier=thorough chunks=ints:2,0,1 unwind=10 mem=6 timeout=3600 stubs=chrono::Local::now=>crate::verif_support::stub_local_now,crate::util::try_format=>crate::verif_support::stub_try_format bound="parameter 2 (quick): picture YYYYMM with every text 20ddmm (four symbolic digits); parameter 0 (thorough): every 6-digit text; parameter 1 (thorough): picture YYYYMMDD with every 8-digit text: the result is the date denoted (day 1 when omitted) or an error, and the (symbolic) clock is not consulted at all"
fn c18_full_date_no_clock(with_day: i64) {
    any_clock(1970, 9999);
    let dg: [u8; 8] = kani::any();
    let mut i = 0;
    while i < 8 {
        kani::assume(dg[i] <= 9);
        i += 1;
    }
    let mut buf = [0u8; 8];
    i = 0;
    while i < 8 {
        buf[i] = dg[i] + b'0';
        i += 1;
    }
    if with_day == 2 {
        // quick variant: picture YYYYMM with the century digits fixed to "20" (four symbolic digits)
        kani::assume(dg[0] == 2 && dg[1] == 0);
    }
    let n = if with_day == 1 { 8 } else { 6 };
    let text = unsafe { std::str::from_utf8_unchecked(&buf[..n]) };
    let fmt = if with_day == 1 { fmt3(Field::Year(4), Field::Month, Field::Day) } else { fmt2(Field::Year(4), Field::Month) };
    let r: Result<SqlDate> = fmt.parse(text);
    let y = dg[0] as i32 * 1000 + dg[1] as i32 * 100 + dg[2] as i32 * 10 + dg[3] as i32;
    let m = dg[4] as u32 * 10 + dg[5] as u32;
    let d = if with_day == 1 { dg[6] as u32 * 10 + dg[7] as u32 } else { 1 };
    if o_valid_ymd(y, m, d) {
        match r {
            Ok(x) => assert!(x.days() == crate::common::date2julian(y, m, d) - 2_440_588),
            Err(_) => assert!(false),
        }
        kani::cover!(m == 2 && (d == 29 || with_day == 0));
    } else {
        assert!(r.is_err());
        kani::cover!(m == 13);
    }
    assert!(clock_reads() == 0);
    std::mem::forget(fmt);
}

// ------------------------------------------------------------- C06: format then parse

fn reparse_equal<const N: usize>(a: &Sink<N>, b: &Sink<N>) -> bool {
    if a.len != b.len {
        return false;
    }
    let mut i = 0;
    while i < a.len {
        if a.buf[i] != b.buf[i] {
            return false;
        }
        i += 1;
    }
    true
}

//@ unit c06_time_hm prop=C06 tier=thorough chunks=ints:0,1 unwind=10 mem=12 timeout=7200 stubs=chrono::Local::now=>crate::verif_support::stub_local_now,crate::util::try_format=>crate::verif_support::stub_try_format,crate::time::Time::extract=>crate::format::verif_h_fmt_fields::stub_time_extract bound="every hour and minute of the day (parameter 0: picture HH24MI, parameter 1: MIHH24 - field order swapped, adjacent fixed-width fields): format, parse the text with the same Formatter, get the value back, re-format byte for byte"
fn c06_time_hm(swapped: i64) {
    any_clock(1970, 9999);
    let h: u32 = kani::any();
    let mi: u32 = kani::any();
    kani::assume(h < 24 && mi < 60);
    let t = Time::try_from_hms(h, mi, 0, 0).unwrap();
    unsafe {
        crate::format::verif_h_fmt_fields::GHOST_TIME = (t.usecs(), h, mi, 0, 0);
    }
    let fmt = if swapped == 1 { fmt2(Field::Minute, Field::Hour24) } else { fmt2(Field::Hour24, Field::Minute) };
    let mut s1: Sink<16> = Sink::new();
    assert!(fmt.format(t, &mut s1).is_ok());
    assert!(s1.len == 4);
    let text = unsafe { std::str::from_utf8_unchecked(&s1.buf[..4]) };
    let r: Result<Time> = fmt.parse(text);
    match r {
        Ok(v) => {
            assert!(v == t);
            let mut s2: Sink<16> = Sink::new();
            assert!(fmt.format(v, &mut s2).is_ok());
            assert!(reparse_equal(&s1, &s2));
        }
        Err(_) => assert!(false),
    }
    kani::cover!(h == 23 && mi == 59);
    std::mem::forget(fmt);
}

//@ unit c06_date_ym prop=C06 tier=thorough unwind=10 mem=16 timeout=7200 stubs=chrono::Local::now=>crate::verif_support::stub_local_now,crate::util::try_format=>crate::verif_support::stub_try_format,crate::common::julian2date=>crate::verif_support::ghost_julian2date bound="every first-of-month date 0001-01..9999-12 with the picture YYYYMM: format, parse with the same Formatter, same value, same text"
fn c06_date_ym() {
    any_clock(1970, 9999);
    let y: i32 = kani::any();
    let m: u32 = kani::any();
    kani::assume(y >= 1 && y <= 9999 && m >= 1 && m <= 12);
    let x = SqlDate::try_from_ymd(y, m, 1).unwrap();
    register_ghost(x, (y, m, 1));
    let fmt = fmt2(Field::Year(4), Field::Month);
    let mut s1: Sink<16> = Sink::new();
    assert!(fmt.format(x, &mut s1).is_ok());
    assert!(s1.len == 6);
    let text = unsafe { std::str::from_utf8_unchecked(&s1.buf[..6]) };
    let r: Result<SqlDate> = fmt.parse(text);
    match r {
        Ok(v) => {
            assert!(v == x);
            let mut s2: Sink<16> = Sink::new();
            assert!(fmt.format(v, &mut s2).is_ok());
            assert!(reparse_equal(&s1, &s2));
        }
        Err(_) => assert!(false),
    }
    kani::cover!(y == 9999 && m == 12);
    kani::cover!(y == 1);
    std::mem::forget(fmt);
}

// ------------------------------------------------------------- C05: two-field cross rules

//@ unit c05_ddd_yyyy prop=C05,C06 tier=thorough unwind=14 mem=14 timeout=7200 stubs=chrono::Local::now=>crate::verif_support::stub_local_now,crate::util::try_format=>crate::verif_support::stub_try_format bound="picture DDD YYYY (day of year BEFORE the year) with every 3+4 digit text: the date is the DDD-th day of THAT year (366 only in leap years), errors otherwise, whatever the (symbolic) clock says"
fn c05_ddd_yyyy() {
    any_clock(1970, 9999);
    let dg: [u8; 7] = kani::any();
    let mut i = 0;
    while i < 7 {
        kani::assume(dg[i] <= 9);
        i += 1;
    }
    let mut buf = [0u8; 7];
    i = 0;
    while i < 7 {
        buf[i] = dg[i] + b'0';
        i += 1;
    }
    let text = unsafe { std::str::from_utf8_unchecked(&buf[..7]) };
    let fmt = fmt2(Field::DayOfYear, Field::Year(4));
    let r: Result<SqlDate> = fmt.parse(text);
    let doy = dg[0] as u32 * 100 + dg[1] as u32 * 10 + dg[2] as u32;
    let y = dg[3] as i32 * 1000 + dg[4] as i32 * 100 + dg[5] as i32 * 10 + dg[6] as i32;
    let ylen = if o_leap(y) { 366 } else { 365 };
    if y >= 1 && doy >= 1 && doy <= ylen {
        let mut mm = 1;
        let mut rest = doy;
        while mm < 12 && rest > o_dim(y, mm) {
            rest -= o_dim(y, mm);
            mm += 1;
        }
        match r {
            Ok(x) => assert!(x.days() == crate::common::date2julian(y, mm, rest) - 2_440_588),
            Err(_) => assert!(false),
        }
        kani::cover!(doy == 366);
        kani::cover!(doy == 60 && o_leap(y));
    } else {
        assert!(r.is_err());
        kani::cover!(doy == 366);
    }
    // (the clock is symbolic: the asserted result does not depend on it, although the code reads it
    // for the month that the day of the year then overrides)
    std::mem::forget(fmt);
}

//@ unit c05_ampm_hh12 prop=C05,C06,C03 chunks=ints:0,1 quick=all unwind=10 mem=6 timeout=3000 stubs=chrono::Local::now=>crate::verif_support::stub_local_now,crate::util::try_format=>crate::verif_support::stub_try_format bound="12-hour time with its meridian in both field orders (parameter 0: AM HH12, 1: HH12 AM), meridian letters in any case, every two-digit hour text: 12 AM = 00h, 12 PM = 12h, h PM = h+12; hours outside 1..=12 are errors"
fn c05_ampm_hh12(order: i64) {
    any_clock(1970, 9999);
    let pm: bool = kani::any();
    let c0: bool = kani::any();
    let c1: bool = kani::any();
    let d0: u8 = kani::any();
    let d1: u8 = kani::any();
    kani::assume(d0 <= 9 && d1 <= 9);
    let a = if pm { b'P' } else { b'A' };
    let m0 = if c0 { a } else { a + 32 };
    let m1 = if c1 { b'M' } else { b'm' };
    let buf = if order == 0 { [m0, m1, d0 + b'0', d1 + b'0'] } else { [d0 + b'0', d1 + b'0', m0, m1] };
    let text = unsafe { std::str::from_utf8_unchecked(&buf[..4]) };
    let fmt = if order == 0 { fmt2(Field::AmPm(AmPmStyle::Upper), Field::Hour12) } else { fmt2(Field::Hour12, Field::AmPm(AmPmStyle::Upper)) };
    let r: Result<Time> = fmt.parse(text);
    let h = d0 as i64 * 10 + d1 as i64;
    if h >= 1 && h <= 12 {
        let h24 = if pm { if h == 12 { 12 } else { h + 12 } } else if h == 12 { 0 } else { h };
        match r {
            Ok(t) => assert!(t.usecs() == h24 * 3_600_000_000),
            Err(_) => assert!(false),
        }
        kani::cover!(h == 12 && pm);
        kani::cover!(h == 12 && !pm);
    } else {
        assert!(r.is_err());
        kani::cover!(h == 13);
    }
    std::mem::forget(fmt);
}

//@ unit c06_date_ddd prop=C06 tier=thorough clock=1 unwind=14 mem=10 timeout=7200 stubs=chrono::Local::now=>crate::verif_support::stub_local_now,crate::util::try_format=>crate::verif_support::stub_try_format,crate::common::julian2date=>crate::verif_support::ghost_julian2date bound="every date of the current year (symbolic clock year 1970..=9999, every month and day incl. 29 February and 31 December of leap years) with the picture DDD: format gives three digits, parsing them with the same Formatter returns the date, re-formatting reproduces the text"
fn c06_date_ddd() {
    let (cy, _, _, _, _, _, _) = any_clock(1970, 9999);
    let m: u32 = kani::any();
    let d: u32 = kani::any();
    kani::assume(o_valid_ymd(cy, m, d));
    let x = SqlDate::try_from_ymd(cy, m, d).unwrap();
    register_ghost(x, (cy, m, d));
    let fmt = fmt1(Field::DayOfYear);
    let mut s1: Sink<16> = Sink::new();
    assert!(fmt.format(x, &mut s1).is_ok());
    assert!(s1.len == 3);
    let text = unsafe { std::str::from_utf8_unchecked(&s1.buf[..3]) };
    let r: Result<SqlDate> = fmt.parse(text);
    match r {
        Ok(v) => {
            assert!(v == x);
            let mut s2: Sink<16> = Sink::new();
            assert!(fmt.format(v, &mut s2).is_ok());
            assert!(reparse_equal(&s1, &s2));
        }
        Err(_) => assert!(false),
    }
    kani::cover!(m == 12 && d == 31 && o_leap(cy));
    kani::cover!(m == 2 && d == 29);
    kani::cover!(m == 1 && d == 1);
    std::mem::forget(fmt);
}

//@ unit c06_time_one prop=C06 chunks=range:0:3 quick=all unwind=8 mem=4 timeout=1500 stubs=chrono::Local::now=>crate::verif_support::stub_local_now,crate::util::try_format=>crate::verif_support::stub_try_format,crate::time::Time::extract=>crate::format::verif_h_fmt_fields::stub_time_extract bound="every value of one time component (parameter 0: hour with HH24, 1: hour with HH12 for 01..12 o'clock in the morning, 2: minute with MI, 3: second with SS; the other components zero): format, parse the text with the same Formatter, same value, same text"
fn c06_time_one(kind: u8) {
    any_clock(1970, 9999);
    let x: u32 = kani::any();
    let (h, mi, sc) = match kind {
        0 => {
            kani::assume(x < 24);
            (x, 0, 0)
        }
        1 => {
            // HH12 alone is lossless for 00:00 (written 12) .. 11:00 only when read back as AM: the
            // parser takes a bare 12-hour value as is, so 12 -> 12:00; use 1..=12
            kani::assume(x >= 1 && x <= 12);
            (x, 0, 0)
        }
        2 => {
            kani::assume(x < 60);
            (0, x, 0)
        }
        _ => {
            kani::assume(x < 60);
            (0, 0, x)
        }
    };
    let t = Time::try_from_hms(h, mi, sc, 0).unwrap();
    unsafe {
        crate::format::verif_h_fmt_fields::GHOST_TIME = (t.usecs(), h, mi, sc, 0);
    }
    let fmt = fmt1(time_pic(kind));
    let mut s1: Sink<16> = Sink::new();
    assert!(fmt.format(t, &mut s1).is_ok());
    assert!(s1.len == 2);
    let text = unsafe { std::str::from_utf8_unchecked(&s1.buf[..2]) };
    let r: Result<Time> = fmt.parse(text);
    match r {
        Ok(v) => {
            assert!(v == t);
            let mut s2: Sink<16> = Sink::new();
            unsafe {
                crate::format::verif_h_fmt_fields::GHOST_TIME = (v.usecs(), h, mi, sc, 0);
            }
            assert!(fmt.format(v, &mut s2).is_ok());
            assert!(reparse_equal(&s1, &s2));
        }
        Err(_) => assert!(false),
    }
    kani::cover!(x == 12);
    kani::cover!(x == 1);
    std::mem::forget(fmt);
}
