//@ attach src/lib.rs
//! C16 / C17 pieces that involve floats or cross-type comparisons (CBMC); the integer kernels of
//! the Oracle-style date are decided by z3 over their MIR (smt_specs.py: s16_*, s17_od_delegation).
#![allow(dead_code, unused_imports)]
use super::*;
#[cfg(not(kani))]
use crate::verif_support::kani;
use crate::verif_support::*;
use crate::{Date, DateTime, Error, IntervalDT, IntervalYM, OracleDate, Time, Timestamp};
use std::cmp::Ordering;

//@ unit c17_cmp prop=C17 tier=thorough mem=4 timeout=7200 bound="every valid Date, Timestamp and Oracle-style date (whole-second count): ==, <, <=, >, partial_cmp between Date and Timestamp, OracleDate and Timestamp, OracleDate and Date, in both argument orders, equal the comparison of the converted microsecond counts"
fn c17_cmp() {
    let n = any_i32_in(DAY_MIN, DAY_MAX);
    let u = any_i64_in(TS_MIN, TS_MAX);
    let k = any_i64_in(TS_MIN / 1_000_000, TS_MAX / 1_000_000);
    let d = mk_date(n);
    let ts = mk_ts(u);
    let od = mk_od(k * 1_000_000);
    let dn = n as i64 * USECS_DAY;
    let ok = k * 1_000_000;
    // Date <-> Timestamp
    assert!((d == ts) == (dn == u) && (ts == d) == (dn == u));
    assert!(d.partial_cmp(&ts) == Some(dn.cmp(&u)) && ts.partial_cmp(&d) == Some(u.cmp(&dn)));
    assert!((d < ts) == (dn < u) && (ts < d) == (u < dn) && (d <= ts) == (dn <= u) && (ts >= d) == (u >= dn));
    // OracleDate <-> Timestamp
    assert!((od == ts) == (ok == u) && (ts == od) == (ok == u));
    assert!(od.partial_cmp(&ts) == Some(ok.cmp(&u)) && ts.partial_cmp(&od) == Some(u.cmp(&ok)));
    assert!((od < ts) == (ok < u) && (ts <= od) == (u <= ok));
    // OracleDate <-> Date
    assert!((od == d) == (ok == dn) && (d == od) == (ok == dn));
    assert!(od.partial_cmp(&d) == Some(ok.cmp(&dn)) && d.partial_cmp(&od) == Some(dn.cmp(&ok)));
    assert!((od > d) == (ok > dn) && (d >= od) == (dn >= ok));
    // conversions: a date is the timestamp at its midnight; an Oracle-style date its whole second
    assert!(Timestamp::from(d).usecs() == dn && Timestamp::from(od).usecs() == ok);
    kani::cover!(dn == u);
    kani::cover!(ok == u && u < 0);
    kani::cover!(ok == dn);
}

//@ unit c17_date_as_midnight prop=C17 tier=thorough mem=3 timeout=3600 bound="every valid date x every valid day-time interval / time of day / timestamp: interval arithmetic and differences through Date equal the same operation on the timestamp at its midnight"
fn c17_date_as_midnight() {
    let n = any_i32_in(DAY_MIN, DAY_MAX);
    let i = any_i64_in(-DT_MAX, DT_MAX);
    let t = any_tod();
    let u = any_i64_in(TS_MIN, TS_MAX);
    let d = mk_date(n);
    let m = Timestamp::from(d);
    let eqr = |a: crate::error::Result<Timestamp>, b: crate::error::Result<Timestamp>| match (a, b) {
        (Ok(x), Ok(y)) => x == y,
        (Err(_), Err(_)) => true,
        _ => false,
    };
    assert!(eqr(d.add_interval_dt(mk_dt(i)), m.add_interval_dt(mk_dt(i))));
    assert!(eqr(d.sub_interval_dt(mk_dt(i)), m.sub_interval_dt(mk_dt(i))));
    assert!(eqr(Ok(d.add_time(mk_time(t))), m.add_time(mk_time(t))));
    assert!(eqr(d.sub_time(mk_time(t)), m.sub_time(mk_time(t))));
    assert!(d.sub_timestamp(mk_ts(u)) == m.sub_timestamp(mk_ts(u)));
    assert!(mk_ts(u).sub_date(d) == mk_ts(u).sub_timestamp(m));
    kani::cover!(d.add_interval_dt(mk_dt(i)).is_err());
}

//@ unit c16_sub_date prop=C16 tier=thorough mem=6 timeout=7200 bound="every Oracle-style date b and every whole number of days n with b + n days in range: (b + n days).sub_date(b) == n exactly (as f64); and the sign of sub_date follows the order of its operands for arbitrary pairs"
fn c16_sub_date() {
    let k = any_i64_in(TS_MIN / 1_000_000, TS_MAX / 1_000_000);
    let n = any_i64_in(-3_652_058, 3_652_058);
    let b = k * 1_000_000;
    let a = b + n * USECS_DAY;
    kani::assume(a >= TS_MIN && a <= TS_MAX);
    let r = mk_od(a).sub_date(mk_od(b));
    assert!(r == n as f64);
    let k2 = any_i64_in(TS_MIN / 1_000_000, TS_MAX / 1_000_000);
    let r2 = mk_od(k2 * 1_000_000).sub_date(mk_od(b));
    assert!((r2 > 0.0) == (k2 > k) && (r2 == 0.0) == (k2 == k));
    kani::cover!(n == -3_652_058);
    kani::cover!(n == 1);
}

//@ unit c16_add_days_pool prop=C16,C02,C03 chunks=ints:253402300799,0,221845392000,9000000000,-1,86399,253402214400,-62135596800 mem=6 timeout=1800/3600 quick=all bound="Oracle-style date = the parameter (seconds since 1970: both range ends, dates beyond the year 2255 where microsecond counts exceed 2^53, the epoch and its neighbours) x every f64 day offset of magnitude below 0.000024 (about two seconds): the result is the Timestamp::add_days result rounded to the nearest whole second in exact integer arithmetic (ties away from zero), sub_days is add_days of the negation, errors agree"
fn c16_add_days_pool(secs: i64) {
    let days: f64 = kani::any();
    // offsets of at most about two seconds: the second-rounding then only sees microsecond counts
    // in a 2^22-wide window around the pool date (what makes the 64-bit remainder tractable);
    // every other intermediate is covered by s16_add_days, NaN/infinite offsets by c08_ts_add_days
    kani::assume(days > -0.000024 && days < 0.000024);
    let od = mk_od(secs * 1_000_000);
    let ts = mk_ts(secs * 1_000_000);
    let r = od.add_days(days);
    match ts.add_days(days) {
        Ok(x) => {
            let u = x.usecs();
            let rem = u % 1_000_000;
            let lo = u - rem;
            let e = if rem * 2 >= 1_000_000 {
                lo + 1_000_000
            } else if rem * 2 <= -1_000_000 {
                lo - 1_000_000
            } else {
                lo
            };
            match r {
                Ok(v) => {
                    assert!(v.usecs() == e && e <= TS_MAX);
                    assert!(v.usecs() % 1_000_000 == 0);
                    kani::cover!(rem == 500_000 || rem == -500_000);
                    kani::cover!(rem == 499_999 || rem == -499_999);
                }
                Err(er) => assert!(e > TS_MAX && matches!(er, Error::DateOutOfRange)),
            }
        }
        Err(Error::NumericOverflow) => assert!(matches!(r, Err(Error::NumericOverflow))),
        Err(Error::InvalidNumber) => assert!(matches!(r, Err(Error::InvalidNumber))),
        Err(_) => assert!(matches!(r, Err(Error::DateOutOfRange))),
    }
    match (od.sub_days(days), od.add_days(-days)) {
        (Ok(a), Ok(b)) => assert!(a.usecs() == b.usecs()),
        (Err(_), Err(_)) => {}
        _ => assert!(false),
    }
    kani::cover!(days < 0.0);
    kani::cover!(days > 0.0 && days < 0.00001);
}
