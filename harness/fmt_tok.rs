//@ attach src/format.rs
//! C19 - a picture is accepted exactly when it is a sequence of documented tokens (the real
//! `FormatParser` against a reference longest-match tokenizer, every byte value symbolic), the
//! 36-token limit, and blank runs.  Shares its panic-freedom with C03.
#![allow(dead_code, unused_imports)]
use super::*;
#[cfg(not(kani))]
use crate::verif_support::kani;
use crate::verif_support::*;

// ---- reference tokenizer -------------------------------------------------------------------
// (kind, arg, consumed).  kind 0 = not a token.
const K_INVALID: u8 = 0;
const K_BLANK: u8 = 1; // arg = run length (at most 255 per token)
const K_PUNCT: u8 = 2; // arg = the byte
const K_T: u8 = 3;
const K_YEAR: u8 = 4; // arg = 1..=4
const K_MM: u8 = 5;
const K_DD: u8 = 6;
const K_DAYNAME: u8 = 7; // arg = style 0..=5
const K_MONNAME: u8 = 8; // arg = style
const K_HH24: u8 = 9;
const K_HH12: u8 = 10;
const K_MI: u8 = 11;
const K_SS: u8 = 12;
const K_FF: u8 = 13; // arg = 0 (FF) or 1..=9
const K_AMPM: u8 = 14; // arg = 0 without dots, 1 with dots
const K_D: u8 = 15;
const K_DDD: u8 = 16;
const K_W: u8 = 17;
const K_WW: u8 = 18;

fn up(b: u8) -> u8 {
    if b >= b'a' && b <= b'z' {
        b - 32
    } else {
        b
    }
}

/// Byte at `i` upper-cased, or 0 past the end.
fn at(s: &[u8], i: usize) -> u8 {
    if i < s.len() {
        up(s[i])
    } else {
        0
    }
}
fn raw(s: &[u8], i: usize) -> u8 {
    if i < s.len() {
        s[i]
    } else {
        0
    }
}

/// Name style from the letter case of the first two letters: both upper -> upper-case,
/// upper then lower -> capitalised, otherwise lower-case (0 Capital, 1 Lower, 2 Upper as in the
/// crate's `NameStyle`; +3 for the abbreviated forms).
fn ref_style(s: &[u8], p: usize, abbr: bool) -> u8 {
    let a = raw(s, p);
    let b = raw(s, p + 1);
    let a_up = a >= b'A' && a <= b'Z';
    let b_up = b >= b'A' && b <= b'Z';
    let base = if a_up && b_up {
        2
    } else if a_up {
        0
    } else {
        1
    };
    if abbr {
        base + 3
    } else {
        base
    }
}

/// Longest documented token starting at `p` (case-insensitive).
fn ref_next(s: &[u8], p: usize) -> (u8, u8, usize) {
    let c0 = raw(s, p);
    let (u0, u1, u2, u3, u4) = (at(s, p), at(s, p + 1), at(s, p + 2), at(s, p + 3), at(s, p + 4));
    match c0 {
        b' ' => {
            let mut n = 1usize;
            while p + n < s.len() && s[p + n] == b' ' && n < 255 {
                n += 1;
            }
            return (K_BLANK, n as u8, n);
        }
        b'-' | b':' | b'/' | b'\\' | b',' | b'.' | b';' => return (K_PUNCT, c0, 1),
        b'T' => return (K_T, 0, 1),
        _ => {}
    }
    match u0 {
        b'Y' => {
            let mut n = 1usize;
            while n < 4 && at(s, p + n) == b'Y' {
                n += 1;
            }
            (K_YEAR, n as u8, n)
        }
        b'M' => {
            if u1 == b'O' && u2 == b'N' && u3 == b'T' && u4 == b'H' {
                (K_MONNAME, ref_style(s, p, false), 5)
            } else if u1 == b'O' && u2 == b'N' {
                (K_MONNAME, ref_style(s, p, true), 3)
            } else if u1 == b'M' {
                (K_MM, 0, 2)
            } else if u1 == b'I' {
                (K_MI, 0, 2)
            } else {
                (K_INVALID, 0, 0)
            }
        }
        b'D' => {
            if u1 == b'D' && u2 == b'D' {
                (K_DDD, 0, 3)
            } else if u1 == b'A' && u2 == b'Y' {
                (K_DAYNAME, ref_style(s, p, false), 3)
            } else if u1 == b'D' {
                (K_DD, 0, 2)
            } else if u1 == b'Y' {
                (K_DAYNAME, ref_style(s, p, true), 2)
            } else {
                (K_D, 0, 1)
            }
        }
        b'H' => {
            if u1 == b'H' && u2 == b'2' && u3 == b'4' {
                (K_HH24, 0, 4)
            } else if u1 == b'H' && u2 == b'1' && u3 == b'2' {
                (K_HH12, 0, 4)
            } else if u1 == b'H' {
                (K_HH12, 0, 2)
            } else {
                (K_INVALID, 0, 0)
            }
        }
        b'S' => {
            if u1 == b'S' {
                (K_SS, 0, 2)
            } else {
                (K_INVALID, 0, 0)
            }
        }
        b'F' => {
            if u1 == b'F' && u2 >= b'1' && u2 <= b'9' {
                (K_FF, u2 - b'0', 3)
            } else if u1 == b'F' && u2 == b'0' {
                // FF followed by a digit that is not 1..=9: "FF" then "0", and "0" is no token
                (K_INVALID, 0, 0)
            } else if u1 == b'F' {
                (K_FF, 0, 2)
            } else {
                (K_INVALID, 0, 0)
            }
        }
        b'A' | b'P' => {
            if u1 == b'.' && u2 == b'M' && u3 == b'.' {
                (K_AMPM, 1, 4)
            } else if u1 == b'M' {
                (K_AMPM, 0, 2)
            } else {
                (K_INVALID, 0, 0)
            }
        }
        b'W' => {
            if u1 == b'W' {
                (K_WW, 0, 2)
            } else {
                (K_W, 0, 1)
            }
        }
        _ => (K_INVALID, 0, 0),
    }
}

fn field_code(f: &Field) -> (u8, u8) {
    match f {
        Field::Invalid => (K_INVALID, 0),
        Field::Blank(n) => (K_BLANK, *n),
        Field::Hyphen => (K_PUNCT, b'-'),
        Field::Colon => (K_PUNCT, b':'),
        Field::Slash => (K_PUNCT, b'/'),
        Field::Backslash => (K_PUNCT, b'\\'),
        Field::Comma => (K_PUNCT, b','),
        Field::Dot => (K_PUNCT, b'.'),
        Field::Semicolon => (K_PUNCT, b';'),
        Field::T => (K_T, 0),
        Field::Year(n) => (K_YEAR, *n),
        Field::Month => (K_MM, 0),
        Field::Day => (K_DD, 0),
        Field::DayName(st) => (K_DAYNAME, *st as u8),
        Field::MonthName(st) => (K_MONNAME, *st as u8),
        Field::Hour24 => (K_HH24, 0),
        Field::Hour12 => (K_HH12, 0),
        Field::Minute => (K_MI, 0),
        Field::Second => (K_SS, 0),
        Field::Fraction(p) => (K_FF, p.unwrap_or(0)),
        Field::AmPm(st) => (
            K_AMPM,
            match st {
                AmPmStyle::Upper | AmPmStyle::Lower => 0,
                AmPmStyle::UpperDot | AmPmStyle::LowerDot => 1,
            },
        ),
        Field::DayOfWeek => (K_D, 0),
        Field::DayOfYear => (K_DDD, 0),
        Field::WeekOfMonth => (K_W, 0),
        Field::WeekOfYear => (K_WW, 0),
    }
}

fn tok_body<const N: usize>() {
    let buf: [u8; N] = kani::any();
    let len: usize = kani::any();
    kani::assume(len <= N);
    let s = &buf[..len];
    let mut p = FormatParser::new(s);
    let mut pos = 0usize;
    let mut steps = 0usize;
    let mut accepted = true;
    while steps <= N {
        let f = p.next();
        if pos >= len {
            assert!(f.is_none());
            break;
        }
        let (k, a, n) = ref_next(s, pos);
        match f {
            None => {
                assert!(false);
            }
            Some(fld) => {
                let (ck, ca) = field_code(&fld);
                assert!(ck == k);
                if k == K_INVALID {
                    accepted = false;
                    kani::cover!(pos > 0);
                    break;
                }
                assert!(ca == a);
                assert!(p.pos == pos + n);
                kani::cover!(k == K_DAYNAME && a == 3);
                kani::cover!((k == K_AMPM && a == 1) || N < 4);
                kani::cover!(k == K_BLANK && a as usize == N);
                pos += n;
            }
        }
        steps += 1;
    }
    kani::cover!(accepted && len == N);
    kani::cover!(!accepted);
}

//@ unit c19_try_new prop=C19,C03 unwind=6 mem=6 timeout=1500 stubs=crate::util::try_format=>crate::verif_support::stub_try_format bound="every byte string of length <= 3: Formatter::try_new succeeds exactly when every tokenizer step yields a token (InvalidFormat otherwise), and then holds exactly those tokens"
fn c19_try_new() {
    let buf: [u8; 3] = kani::any();
    let len: usize = kani::any();
    kani::assume(len <= 3);
    let s = &buf[..len];
    let mut p = FormatParser::new(s);
    let mut count = 0usize;
    let mut valid = true;
    let mut steps = 0;
    while steps < 4 {
        match p.next() {
            None => break,
            Some(Field::Invalid) => {
                valid = false;
                break;
            }
            Some(_) => count += 1,
        }
        steps += 1;
    }
    let text = unsafe { std::str::from_utf8_unchecked(s) };
    match Formatter::try_new(text) {
        Ok(f) => {
            assert!(valid && f.fields.len() == count);
            kani::cover!(count == 3);
            kani::cover!(count == 1 && len == 3);
            std::mem::forget(f);
        }
        Err(e) => {
            assert!(!valid && matches!(e, Error::InvalidFormat(_)));
            std::mem::forget(e);
        }
    }
}

//@ unit c19_tok3 prop=C19,C03 q23=1 unwind=7 mem=4 timeout=900 bound="every byte string (all 256 byte values) of length <= 3: token sequence, consumed lengths and name styles against the reference tokenizer"
fn c19_tok3() {
    tok_body::<3>();
}

//@ unit c19_tok4 prop=C19 tier=thorough unwind=7 mem=6 timeout=3600 bound="every byte string (all 256 byte values) of length <= 4: token sequence, consumed lengths and name styles against the reference tokenizer"
fn c19_tok4() {
    tok_body::<4>();
}

//@ unit c19_tok6 prop=C19,C03 tier=thorough unwind=9 mem=8 timeout=3600 bound="every byte string (all 256 byte values) of length <= 6, as c19_tok4"
fn c19_tok6() {
    tok_body::<6>();
}

//@ unit c19_window prop=C19,C03 unwind=10 mem=4 timeout=1200/3600 bound="one tokenizer step from an arbitrary position of an arbitrary byte buffer of length <= 9 (longest token 5 bytes): equals the reference step - the inductive step for pictures of any length"
fn c19_window() {
    let buf: [u8; 9] = kani::any();
    let len: usize = kani::any();
    let pos: usize = kani::any();
    kani::assume(len <= 9 && pos < len);
    let s = &buf[..len];
    let mut p = FormatParser { input: s, pos };
    let f = p.next();
    let (k, a, n) = ref_next(s, pos);
    match f {
        None => assert!(false),
        Some(fld) => {
            let (ck, ca) = field_code(&fld);
            assert!(ck == k);
            if k != K_INVALID {
                assert!(ca == a && p.pos == pos + n);
                kani::cover!(k == K_MONNAME && n == 5 && pos > 0);
            } else {
                kani::cover!(pos > 0);
            }
        }
    }
}

fn blank_run_body<const N: usize>(k: usize) {
    let buf = [b' '; N];
    let mut p = FormatParser::new(&buf[..k]);
    let mut sum = 0usize;
    let mut steps = 0;
    while sum < k && steps < 4 {
        match p.next() {
            Some(Field::Blank(n)) => {
                let rest = k - sum;
                let want = if rest > 255 { 255 } else { rest };
                assert!(n as usize == want);
                sum += n as usize;
                assert!(p.pos == sum);
            }
            _ => assert!(false),
        }
        steps += 1;
    }
    assert!(sum == k);
    assert!(p.next().is_none());
}

//@ unit c19_blank_run q23=1 prop=C19,C03 chunks=ints:256,255,254,257,300,511,600,1 quick=first:4 unwind=602 mem=8 timeout=1500 bound="a picture consisting of exactly k blanks, k = the parameter (the lengths around the one-byte counter limit, and up to 600): the tokenizer returns Blank fields of at most 255 whose lengths sum to k, no counter overflow"
fn c19_blank_run(k: usize) {
    blank_run_body::<600>(k);
    kani::cover!(true);
}

//@ unit c19_blank_run_sym q23=1 prop=C19,C03 unwind=26 mem=6 timeout=1500 bound="a picture consisting of k blanks, every k in 1..=24 (symbolic length): one Blank(k) field"
fn c19_blank_run_sym() {
    let k: usize = kani::any();
    kani::assume(k >= 1 && k <= 24);
    blank_run_body::<24>(k);
    kani::cover!(k == 24);
    kani::cover!(k == 1);
}

//@ unit c19_blank_format q23=1 prop=C19,C04,C03 qprops=C19,C03,C02 unwind=258 mem=6 timeout=1200 stubs=crate::util::try_format=>crate::verif_support::stub_try_format bound="Formatter::format of a Blank(n) field, every n: u8, writes exactly n blanks"
fn c19_blank_format() {
    let n: u8 = kani::any();
    let mut fields = StackVec::new();
    fields.push(Field::Blank(n));
    let fmt = Formatter {
        fields,
        format_exact: false,
    };
    let mut sink: Sink<256> = Sink::new();
    let t = crate::Time::ZERO;
    let r = fmt.format(t, &mut sink);
    assert!(r.is_ok());
    assert!(sink.len == n as usize);
    kani::cover!(n == 255);
    kani::cover!(n == 0);
    let i: usize = kani::any();
    if i < n as usize {
        assert!(sink.buf[i] == b' ');
    }
    std::mem::forget(fmt);
}

//@ unit c19_max_fields q23=1 prop=C19,C03 chunks=tuples:36,0;37,0;36,1;37,1;35,0;40,1;1,0 quick=first:4 unwind=44 mem=6 timeout=1500 stubs=crate::util::try_format=>crate::verif_support::stub_try_format bound="pictures of exactly c one-byte tokens (c = the first parameter; second parameter 0: '-' everywhere, 1: D and ':' alternating): accepted iff c <= 36, and then holding c fields"
fn c19_max_fields(c: usize, alt: usize) {
    let mut b2 = [b'-'; 40];
    if alt == 1 {
        let mut i = 0;
        while i < 40 {
            b2[i] = if i % 2 == 1 { b':' } else { b'D' };
            i += 1;
        }
    }
    let text = unsafe { std::str::from_utf8_unchecked(&b2[..c]) };
    let r = Formatter::try_new(text);
    if c <= 36 {
        match r {
            Ok(f) => {
                assert!(f.fields.len() == c);
                std::mem::forget(f);
            }
            Err(_) => assert!(false),
        }
    } else {
        match r {
            Ok(_) => assert!(false),
            Err(e) => {
                assert!(matches!(e, Error::InvalidFormat(_)));
                std::mem::forget(e);
            }
        }
    }
    kani::cover!(true);
}
