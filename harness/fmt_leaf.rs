//@ attach src/format.rs
//! C03 / C05 - the leaf parsers of the parse field loop over *every* byte string (all 256 byte
//! values, so non-ASCII and multi-byte input is included) up to a length: no panic, and the value
//! and remainder the text denotes (reference reader written in the harness).
#![allow(dead_code, unused_imports)]
use super::*;
#[cfg(not(kani))]
use crate::verif_support::kani;
use crate::verif_support::*;

fn is_digit(b: u8) -> bool {
    b >= b'0' && b <= b'9'
}

fn any_text<const N: usize>() -> ([u8; N], usize) {
    let buf: [u8; N] = kani::any();
    let len: usize = kani::any();
    kani::assume(len <= N);
    (buf, len)
}

/// Reference reader for a signed number of at most `max_len` digits: (negative, value, consumed).
fn ref_number(s: &[u8], max_len: usize) -> Option<(bool, i64, usize)> {
    if s.is_empty() {
        return None;
    }
    let (neg, start) = if s[0] == b'-' {
        (true, 1)
    } else if s[0] == b'+' {
        (false, 1)
    } else {
        (false, 0)
    };
    let mut i = start;
    let mut v: i64 = 0;
    while i < s.len() && i - start < max_len && is_digit(s[i]) {
        v = v * 10 + (s[i] - b'0') as i64;
        i += 1;
    }
    if i == start {
        return None;
    }
    Some((neg, if neg { -v } else { v }, i))
}

//@ unit c05_parse_number q23=1 prop=C05,C03 chunks=ints:2,3,4,9 quick=all unwind=12 mem=4 timeout=900 bound="every byte string of length <= 10, max_len = parameter (the lengths the callers use): sign, at most max_len digits, value, remainder; error iff no digit"
fn c05_parse_number(max_len: usize) {
    let (buf, len) = any_text::<10>();
    let s = &buf[..len];
    let r = parse_number(s, max_len);
    match ref_number(s, max_len) {
        Some((neg, v, used)) => match r {
            Ok((n, val, rest)) => {
                assert!(n == neg && val as i64 == v && rest.len() == len - used);
                kani::cover!(neg && v == 0);
                kani::cover!(used == max_len + 1);
                kani::cover!(rest.len() > 0);
            }
            Err(_) => assert!(false),
        },
        None => {
            assert!(matches!(r, Err(Error::ParseError(_))));
            kani::cover!(len == 1);
            kani::cover!(len == 0);
        }
    }
}

/// Half-up rounding of `digits` (as an integer of `n` digits) to microseconds.
fn ref_fraction_value(v: u64, n: usize) -> u64 {
    match n {
        0 => 0,
        1 => v * 100_000,
        2 => v * 10_000,
        3 => v * 1_000,
        4 => v * 100,
        5 => v * 10,
        6 => v,
        7 => (v + 5) / 10,
        8 => (v + 50) / 100,
        _ => (v + 500) / 1000,
    }
}

//@ unit c05_parse_fraction prop=C05,C03 chunks=range:1:6/range:1:9 quick=all unwind=12 mem=5 timeout=1200/10800 bound="every byte string of length <= 10, precision = parameter (quick 1..=6, thorough 1..=9 - the float multiply by 0.1/0.01/0.001 of the longer fractions takes over 20 min each): digits scaled to microseconds, rounded half-up beyond six digits, 1000000 on carry; '-' rejected; empty = 0"
fn c05_parse_fraction(max_len: usize) {
    let (buf, len) = any_text::<10>();
    let s = &buf[..len];
    let r = parse_fraction(s, max_len);
    if len == 0 {
        match r {
            Ok((v, rest)) => assert!(v == 0 && rest.is_empty()),
            Err(_) => assert!(false),
        }
        return;
    }
    if s[0] == b'-' {
        assert!(matches!(r, Err(Error::ParseError(_))));
        kani::cover!(true);
        return;
    }
    let mut i = 0;
    let mut v: u64 = 0;
    while i < len && i < max_len && is_digit(s[i]) {
        v = v * 10 + (s[i] - b'0') as u64;
        i += 1;
    }
    match r {
        Ok((us, rest)) => {
            assert!(us as u64 == ref_fraction_value(v, i));
            assert!(rest.len() == len - i);
            assert!(us <= 1_000_000);
            kani::cover!(us == 1_000_000 || max_len < 7);
            kani::cover!(i == max_len && rest.len() > 0);
            kani::cover!(i == 0);
        }
        Err(_) => assert!(false),
    }
}

fn eq_ci(s: &[u8], at: usize, word: &[u8]) -> bool {
    if s.len() < at + word.len() {
        return false;
    }
    let mut i = 0;
    while i < word.len() {
        let a = s[at + i];
        let a = if a >= b'a' && a <= b'z' { a - 32 } else { a };
        if a != word[i] {
            return false;
        }
        i += 1;
    }
    true
}

//@ unit c05_parse_ampm q23=1 prop=C05,C03 unwind=8 mem=3 bound="every byte string of length <= 6 x the four meridian styles: AM/PM (or A.M./P.M. for the dotted styles) in any letter case; empty text = no meridian"
fn c05_parse_ampm() {
    let (buf, len) = any_text::<6>();
    let s = &buf[..len];
    let st: u8 = kani::any();
    kani::assume(st < 4);
    let style = match st {
        0 => AmPmStyle::Upper,
        1 => AmPmStyle::Lower,
        2 => AmPmStyle::UpperDot,
        _ => AmPmStyle::LowerDot,
    };
    let r = parse_ampm(s, &style);
    if len == 0 {
        assert!(matches!(r, Ok((None, _))));
        return;
    }
    let (am, pm, n): (&[u8], &[u8], usize) = if st >= 2 { (b"A.M.", b"P.M.", 4) } else { (b"AM", b"PM", 2) };
    if eq_ci(s, 0, am) {
        match r {
            Ok((Some(AmPm::Am), rest)) => assert!(rest.len() == len - n),
            _ => assert!(false),
        }
        kani::cover!(st >= 2);
    } else if eq_ci(s, 0, pm) {
        match r {
            Ok((Some(AmPm::Pm), rest)) => assert!(rest.len() == len - n),
            _ => assert!(false),
        }
        kani::cover!(st < 2);
    } else {
        assert!(matches!(r, Err(Error::ParseError(_))));
    }
}

const MONTHS_FULL: [&[u8]; 12] = [
    b"JANUARY", b"FEBRUARY", b"MARCH", b"APRIL", b"MAY", b"JUNE", b"JULY", b"AUGUST", b"SEPTEMBER", b"OCTOBER",
    b"NOVEMBER", b"DECEMBER",
];
const DAYS_FULL: [&[u8]; 7] = [b"SUNDAY", b"MONDAY", b"TUESDAY", b"WEDNESDAY", b"THURSDAY", b"FRIDAY", b"SATURDAY"];

//@ unit c05_parse_month_name prop=C05,C03 unwind=14 mem=6 timeout=1500 bound="every byte string of length <= 10: English month names (full, else three-letter abbreviation) in any letter case, remainder after the name"
fn c05_parse_month_name() {
    let (buf, len) = any_text::<10>();
    let s = &buf[..len];
    let r = parse_month_name(s);
    let mut exp: Option<(usize, usize)> = None;
    let mut i = 0;
    while i < 12 {
        if exp.is_none() && eq_ci(s, 0, MONTHS_FULL[i]) {
            exp = Some((i + 1, MONTHS_FULL[i].len()));
        }
        i += 1;
    }
    i = 0;
    while i < 12 {
        if exp.is_none() && eq_ci(s, 0, &MONTHS_FULL[i][..3]) {
            exp = Some((i + 1, 3));
        }
        i += 1;
    }
    match exp {
        Some((m, n)) => match r {
            Ok((mon, rest)) => {
                assert!(mon as usize == m && rest.len() == len - n);
                kani::cover!(m == 9 && n == 9);
                kani::cover!(m == 5 && rest.len() > 0);
                kani::cover!(n == 3 && m == 12);
            }
            Err(_) => assert!(false),
        },
        None => assert!(matches!(r, Err(Error::ParseError(_)))),
    }
}

//@ unit c05_parse_week_day_name prop=C05,C03 unwind=12 mem=6 timeout=1500 bound="every byte string of length <= 10 x full / abbreviated style: English weekday names in any letter case (Sunday = 1)"
fn c05_parse_week_day_name() {
    let (buf, len) = any_text::<10>();
    let s = &buf[..len];
    let abbr: bool = kani::any();
    let style = if abbr { NameStyle::AbbrUpper } else { NameStyle::Capital };
    let r = parse_week_day_name(s, style);
    let mut exp: Option<(usize, usize)> = None;
    let mut i = 0;
    while i < 7 {
        let w: &[u8] = if abbr { &DAYS_FULL[i][..3] } else { DAYS_FULL[i] };
        if exp.is_none() && eq_ci(s, 0, w) {
            exp = Some((i + 1, w.len()));
        }
        i += 1;
    }
    match exp {
        Some((d, n)) => match r {
            Ok((wd, rest)) => {
                assert!(wd as usize == d && rest.len() == len - n);
                kani::cover!(d == 4 && !abbr);
                kani::cover!(d == 7 && abbr);
            }
            Err(_) => assert!(false),
        },
        None => assert!(matches!(r, Err(Error::ParseError(_)))),
    }
}

//@ unit c03_small_leaves q23=1 prop=C03,C05 unwind=10 mem=3 bound="every byte string of length <= 8: parse_week_day_number ('1'..'7' only), eat_whitespaces, eat_digits (every max_len 0..=9), expect_char (every byte)"
fn c03_small_leaves() {
    let (buf, len) = any_text::<8>();
    let s = &buf[..len];
    let r = parse_week_day_number(s);
    if len > 0 && s[0] >= b'1' && s[0] <= b'7' {
        match r {
            Ok((wd, rest)) => assert!(wd as u8 == s[0] - b'0' && rest.len() == len - 1),
            Err(_) => assert!(false),
        }
        kani::cover!(s[0] == b'7');
    } else {
        assert!(matches!(r, Err(Error::ParseError(_))));
        kani::cover!(len > 0 && s[0] < b'0');
        kani::cover!(len > 0 && s[0] == b'8');
        kani::cover!(len > 0 && s[0] >= 0x80);
    }
    let w = eat_whitespaces(s);
    let mut k = 0;
    while k < len && (s[k] == b' ' || s[k] == b'\t' || s[k] == b'\n' || s[k] == b'\r' || s[k] == 0x0C) {
        k += 1;
    }
    assert!(w.len() == len - k);
    let ml: usize = kani::any();
    kani::assume(ml <= 9);
    let (dg, rest) = eat_digits(s, ml);
    let mut j = 0;
    while j < len && j < ml && is_digit(s[j]) {
        j += 1;
    }
    assert!(dg.len() == j && rest.len() == len - j);
    let c: u8 = kani::any();
    assert!(expect_char(s, c) == (len > 0 && s[0] == c));
}

//@ unit c03_write_u32 q23=1 prop=C03,C04 chunks=range:1:7/range:1:10 quick=all unwind=13 mem=3 timeout=1200/7200 stubs=crate::util::try_format=>crate::verif_support::stub_try_format bound="every u32 with the number of decimal digits given by the parameter (quick: 1..=7 digits, thorough: 1..=10 = every u32) x every width 1..=10: decimal digits, zero-padded to the width, never truncated, no panic"
fn c03_write_u32(nd: u32) {
    let v: u32 = kani::any();
    let width: usize = kani::any();
    kani::assume(width >= 1 && width <= 10);
    // value range of nd-digit numbers
    let lo: u64 = if nd == 1 { 0 } else { 10u64.pow(nd - 1) };
    let hi: u64 = 10u64.pow(nd) - 1;
    kani::assume(v as u64 >= lo && v as u64 <= hi);
    let mut sink: Sink<16> = Sink::new();
    let r = write_u32(&mut sink, v, width);
    assert!(r.is_ok());
    // the output is exactly max(width, number of digits) decimal digits with the right value
    // (read back by multiplication - no division in the reference), zero-padded, never truncated
    let n = 1 + (v >= 10) as usize + (v >= 100) as usize + (v >= 1_000) as usize + (v >= 10_000) as usize
        + (v >= 100_000) as usize + (v >= 1_000_000) as usize + (v >= 10_000_000) as usize
        + (v >= 100_000_000) as usize + (v >= 1_000_000_000) as usize;
    let total = if n > width { n } else { width };
    assert!(sink.len == total);
    let mut acc: u64 = 0;
    let mut i = 0;
    while i < total {
        let c = sink.buf[i];
        assert!(c >= b'0' && c <= b'9');
        acc = acc * 10 + (c - b'0') as u64;
        i += 1;
    }
    assert!(acc == v as u64);
    assert!(n == nd as usize);
    kani::cover!(n < width || nd == 10);
    kani::cover!(n > width || nd == 1);
}
