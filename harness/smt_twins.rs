//@ attach src/lib.rs
//! Native twins of the SMT obligations in harness/smt_specs.py.  The property itself is decided
//! by z3 over the MIR of the crate's functions (tools/mirsmt.py) for *every* value of the inputs;
//! the function of the same name here draws the same inputs in the same order and asserts the
//! same property against the real code, so that a model found by the solver can be replayed on a
//! native build before it is reported.  (`engine=smt`: not compiled into a Kani proof.)
#![allow(dead_code, unused_imports)]
use super::*;
#[cfg(not(kani))]
use crate::verif_support::kani;
use crate::verif_support::*;
use crate::{Date, DateTime, Error, IntervalDT, IntervalYM, OracleDate, Round, Sign, Time, Timestamp, Trunc};
use std::convert::TryFrom;

fn emod(x: i128, m: i128) -> i128 {
    ((x % m) + m) % m
}

//@ unit s01_inverse prop=C01,C09,C10,C11 engine=smt tier=thorough timeout=2400 mem=4 bound="every day number 0001-01-01..9999-12-31 (one symbolic i32): extract(n) is a real date and try_from_ymd(extract(n)) == Ok(n)"
fn s01_inverse() {
    let n: i32 = kani::any();
    kani::assume(n >= DAY_MIN && n <= DAY_MAX);
    let (y, m, d) = mk_date(n).extract();
    assert!(o_valid_ymd(y, m, d));
    assert!(Date::try_from_ymd(y, m, d).map(|x| x.days()) == Ok(n));
}

//@ unit s01_step prop=C01,C09,C10,C11 engine=smt tier=thorough timeout=3600 mem=4 bound="every day number but the last: extract(n+1) is the calendar successor of extract(n)"
fn s01_step() {
    let n: i32 = kani::any();
    kani::assume(n >= DAY_MIN && n < DAY_MAX);
    let (y, m, d) = mk_date(n).extract();
    assert!(mk_date(n + 1).extract() == o_succ(y, m, d));
}

//@ unit s01_weekday prop=C01 engine=smt bound="every day number: day_of_week = (n + 4) mod 7 + 1 with Sunday = 1, i.e. day 0 is a Thursday and the weekday advances by one each day"
fn s01_weekday() {
    let n: i32 = kani::any();
    kani::assume(n >= DAY_MIN && n <= DAY_MAX);
    assert!(mk_date(n).day_of_week() as u32 == o_weekday(n));
}

//@ unit s07_split prop=C07,C02,C03 engine=smt bound="every date x every microsecond of the day (two symbolic integers, the whole range): new/extract/date/time"
fn s07_split() {
    let n: i32 = kani::any();
    let t: i64 = kani::any();
    kani::assume(n >= DAY_MIN && n <= DAY_MAX && t >= 0 && t < USECS_DAY);
    let ts = Timestamp::new(mk_date(n), mk_time(t));
    assert!(ts.usecs() as i128 == n as i128 * USECS_DAY as i128 + t as i128);
    assert!(ts.usecs() >= TS_MIN && ts.usecs() <= TS_MAX);
    let (d, tm) = ts.extract();
    assert!(d.days() == n && tm.usecs() == t);
    assert!(Timestamp::date(ts).days() == n && Timestamp::time(ts).usecs() == t);
}

//@ unit s07_split_any prop=C07,C02,C03,C09,C10,C11,C16,C17 engine=smt bound="every valid timestamp count (one symbolic i64): extract/date/time return the unique (n, t) with n*86400e6 + t == u, 0 <= t < 86400e6 - discharges the TS-split contract"
fn s07_split_any() {
    let u: i64 = kani::any();
    kani::assume(u >= TS_MIN && u <= TS_MAX);
    let ts = mk_ts(u);
    let (d, tm) = ts.extract();
    assert!(d.days() as i128 * USECS_DAY as i128 + tm.usecs() as i128 == u as i128);
    assert!(tm.usecs() >= 0 && tm.usecs() < USECS_DAY && d.days() >= DAY_MIN && d.days() <= DAY_MAX);
    assert!(Timestamp::date(ts) == d && Timestamp::time(ts) == tm);
}

//@ unit s07_time_fields prop=C07,C02,C03 engine=smt bound="every microsecond of the day: Time::extract fields and the hour()/minute() accessors"
fn s07_time_fields() {
    let t: i64 = kani::any();
    kani::assume(t >= 0 && t < USECS_DAY);
    let (h, mi, s, us) = mk_time(t).extract();
    assert!(h < 24 && mi < 60 && s < 60 && us < 1_000_000);
    assert!(h as i64 * 3_600_000_000 + mi as i64 * 60_000_000 + s as i64 * 1_000_000 + us as i64 == t);
    assert!(mk_time(t).hour() == Some(h as i32) && mk_time(t).minute() == Some(mi as i32));
}

//@ unit s12_add prop=C12,C02,C03 engine=smt bound="every microsecond of the day x every valid day-time interval (the whole +-8.64e18 us range): add/sub_interval_dt = (t +- i) mod 24 h"
fn s12_add() {
    let t: i64 = kani::any();
    let i: i64 = kani::any();
    kani::assume(t >= 0 && t < USECS_DAY && i >= -DT_MAX && i <= DT_MAX);
    let r = mk_time(t).add_interval_dt(mk_dt(i));
    assert!(r.usecs() as i128 == emod(t as i128 + i as i128, USECS_DAY as i128));
    let s = mk_time(t).sub_interval_dt(mk_dt(i));
    assert!(s.usecs() as i128 == emod(t as i128 - i as i128, USECS_DAY as i128));
}

//@ unit s12_from_interval prop=C12,C02,C03 engine=smt bound="every valid day-time interval: Time::from keeps |i| mod 24 h"
fn s12_from_interval() {
    let i: i64 = kani::any();
    kani::assume(i >= -DT_MAX && i <= DT_MAX);
    assert!(Time::from(mk_dt(i)).usecs() as i128 == (i as i128).abs() % USECS_DAY as i128);
}

//@ unit s13_dt prop=C13,C02,C03 engine=smt timeout=1200 bound="every valid day-time interval (one symbolic i64 over the whole range): extract, signed day/hour/minute accessors, negate"
fn s13_dt() {
    let v: i64 = kani::any();
    kani::assume(v >= -DT_MAX && v <= DT_MAX);
    let x = mk_dt(v);
    let (sign, d, h, mi, s, us) = x.extract();
    let mag = (v as i128).abs();
    assert!((sign == Sign::Negative) == (v < 0));
    assert!(h < 24 && mi < 60 && s < 60 && us < 1_000_000);
    assert!(d as i128 * USECS_DAY as i128 + h as i128 * 3_600_000_000 + mi as i128 * 60_000_000 + s as i128 * 1_000_000 + us as i128 == mag);
    let sg: i128 = if v < 0 { -1 } else { 1 };
    assert!(x.day() == Some((sg * (mag / USECS_DAY as i128)) as i32));
    assert!(x.hour() == Some((sg * ((mag / 3_600_000_000) % 24)) as i32));
    assert!(x.minute() == Some((sg * ((mag / 60_000_000) % 60)) as i32));
    assert!((-x).usecs() == -v);
}

//@ unit s13_ym prop=C13,C02,C03 engine=smt bound="every valid year-month interval: extract and the signed year()/month() accessors"
fn s13_ym() {
    let v: i32 = kani::any();
    kani::assume(v >= -YM_MAX && v <= YM_MAX);
    let x = mk_ym(v);
    let (sign, y, m) = x.extract();
    let mag = (v as i64).abs();
    assert!((sign == Sign::Negative) == (v < 0) && m < 12 && y as i64 * 12 + m as i64 == mag);
    let sg: i64 = if v < 0 { -1 } else { 1 };
    assert!(x.year() == Some((sg * (mag / 12)) as i32) && x.month() == Some((sg * (mag % 12)) as i32));
}

//@ unit s16_floor prop=C16,C02,C03,C17 engine=smt bound="every valid timestamp: OracleDate::from floors to the whole second toward earlier time (also before 1970)"
fn s16_floor() {
    let u: i64 = kani::any();
    kani::assume(u >= TS_MIN && u <= TS_MAX);
    let x = OracleDate::from(mk_ts(u)).usecs();
    assert!(x % 1_000_000 == 0 && x <= u && u < x + 1_000_000 && x >= TS_MIN);
}

//@ unit s16_new prop=C16,C02,C03 engine=smt bound="every date x every microsecond of the day: OracleDate::new drops the sub-second part"
fn s16_new() {
    let n: i32 = kani::any();
    let t: i64 = kani::any();
    kani::assume(n >= DAY_MIN && n <= DAY_MAX && t >= 0 && t < USECS_DAY);
    let x = OracleDate::new(mk_date(n), mk_time(t)).usecs();
    assert!(x == n as i64 * USECS_DAY + t - t % 1_000_000);
}

//@ unit s16_try_from_usecs prop=C16,C02,C03,C15 engine=smt bound="every i64: OracleDate::try_from_usecs accepts exactly the in-range whole-second counts"
fn s16_try_from_usecs() {
    let u: i64 = kani::any();
    let good = u >= TS_MIN && u <= TS_MAX && u % 1_000_000 == 0;
    match OracleDate::try_from_usecs(u) {
        Ok(x) => assert!(good && x.usecs() == u),
        Err(e) => assert!(!good && matches!(e, Error::DateOutOfRange)),
    }
}
