//@ attach src/lib.rs
//! Native twins of the SMT obligations in harness/smt_specs.py.  The property itself is decided
//! by z3 over the MIR of the crate's functions (tools/mirsmt.py) for *every* value of the inputs;
//! the function of the same name here draws the same inputs in the same order and asserts the
//! same property against the real code, so that a model found by the solver can be replayed on a
//! native build before it is reported.  (`engine=smt`: not compiled into a Kani proof.)
#![allow(dead_code, unused_imports)]
use super::*;
#[cfg(not(kani))]
use crate::verif_support::kani;
use crate::verif_support::*;
use crate::{Date, DateTime, Error, IntervalDT, IntervalYM, OracleDate, Round, Sign, Time, Timestamp, Trunc};
use std::convert::TryFrom;

fn emod(x: i128, m: i128) -> i128 {
    ((x % m) + m) % m
}

//@ unit s01_inverse prop=C01,C09,C10,C11 engine=smt tier=thorough timeout=2400 mem=4 bound="every day number 0001-01-01..9999-12-31 (one symbolic i32): extract(n) is a real date and try_from_ymd(extract(n)) == Ok(n)"
fn s01_inverse() {
    let n: i32 = kani::any();
    kani::assume(n >= DAY_MIN && n <= DAY_MAX);
    let (y, m, d) = mk_date(n).extract();
    assert!(o_valid_ymd(y, m, d));
    assert!(Date::try_from_ymd(y, m, d).map(|x| x.days()) == Ok(n));
}

//@ unit s01_step prop=C01,C09,C10,C11 engine=smt tier=thorough timeout=3600 mem=4 bound="every day number but the last: extract(n+1) is the calendar successor of extract(n)"
fn s01_step() {
    let n: i32 = kani::any();
    kani::assume(n >= DAY_MIN && n < DAY_MAX);
    let (y, m, d) = mk_date(n).extract();
    assert!(mk_date(n + 1).extract() == o_succ(y, m, d));
}

//@ unit s01_weekday prop=C01 engine=smt bound="every day number: day_of_week = (n + 4) mod 7 + 1 with Sunday = 1, i.e. day 0 is a Thursday and the weekday advances by one each day"
fn s01_weekday() {
    let n: i32 = kani::any();
    kani::assume(n >= DAY_MIN && n <= DAY_MAX);
    assert!(mk_date(n).day_of_week() as u32 == o_weekday(n));
}

//@ unit s07_split prop=C07,C02,C03 engine=smt bound="every date x every microsecond of the day (two symbolic integers, the whole range): new/extract/date/time"
fn s07_split() {
    let n: i32 = kani::any();
    let t: i64 = kani::any();
    kani::assume(n >= DAY_MIN && n <= DAY_MAX && t >= 0 && t < USECS_DAY);
    let ts = Timestamp::new(mk_date(n), mk_time(t));
    assert!(ts.usecs() as i128 == n as i128 * USECS_DAY as i128 + t as i128);
    assert!(ts.usecs() >= TS_MIN && ts.usecs() <= TS_MAX);
    let (d, tm) = ts.extract();
    assert!(d.days() == n && tm.usecs() == t);
    assert!(Timestamp::date(ts).days() == n && Timestamp::time(ts).usecs() == t);
}

//@ unit s07_split_any prop=C07,C02,C03,C09,C10,C11,C16,C17 engine=smt bound="every valid timestamp count (one symbolic i64): extract/date/time return the unique (n, t) with n*86400e6 + t == u, 0 <= t < 86400e6 - discharges the TS-split contract"
fn s07_split_any() {
    let u: i64 = kani::any();
    kani::assume(u >= TS_MIN && u <= TS_MAX);
    let ts = mk_ts(u);
    let (d, tm) = ts.extract();
    assert!(d.days() as i128 * USECS_DAY as i128 + tm.usecs() as i128 == u as i128);
    assert!(tm.usecs() >= 0 && tm.usecs() < USECS_DAY && d.days() >= DAY_MIN && d.days() <= DAY_MAX);
    assert!(Timestamp::date(ts) == d && Timestamp::time(ts) == tm);
}

//@ unit s07_time_fields prop=C07,C02,C03 engine=smt bound="every microsecond of the day: Time::extract fields and the hour()/minute() accessors"
fn s07_time_fields() {
    let t: i64 = kani::any();
    kani::assume(t >= 0 && t < USECS_DAY);
    let (h, mi, s, us) = mk_time(t).extract();
    assert!(h < 24 && mi < 60 && s < 60 && us < 1_000_000);
    assert!(h as i64 * 3_600_000_000 + mi as i64 * 60_000_000 + s as i64 * 1_000_000 + us as i64 == t);
    assert!(mk_time(t).hour() == Some(h as i32) && mk_time(t).minute() == Some(mi as i32));
    assert!(mk_time(t).second() == Some((t % 60_000_000) as f64 / 1_000_000.0));
}

//@ unit s12_add prop=C12,C02,C03 engine=smt bound="every microsecond of the day x every valid day-time interval (the whole +-8.64e18 us range): add/sub_interval_dt = (t +- i) mod 24 h"
fn s12_add() {
    let t: i64 = kani::any();
    let i: i64 = kani::any();
    kani::assume(t >= 0 && t < USECS_DAY && i >= -DT_MAX && i <= DT_MAX);
    let r = mk_time(t).add_interval_dt(mk_dt(i));
    assert!(r.usecs() as i128 == emod(t as i128 + i as i128, USECS_DAY as i128));
    let s = mk_time(t).sub_interval_dt(mk_dt(i));
    assert!(s.usecs() as i128 == emod(t as i128 - i as i128, USECS_DAY as i128));
}

//@ unit s12_from_interval prop=C12,C02,C03 engine=smt bound="every valid day-time interval: Time::from keeps |i| mod 24 h"
fn s12_from_interval() {
    let i: i64 = kani::any();
    kani::assume(i >= -DT_MAX && i <= DT_MAX);
    assert!(Time::from(mk_dt(i)).usecs() as i128 == (i as i128).abs() % USECS_DAY as i128);
}

//@ unit s13_dt prop=C13,C02,C03 engine=smt timeout=1200 bound="every valid day-time interval (one symbolic i64 over the whole range): extract, signed day/hour/minute accessors, negate"
fn s13_dt() {
    let v: i64 = kani::any();
    kani::assume(v >= -DT_MAX && v <= DT_MAX);
    let x = mk_dt(v);
    let (sign, d, h, mi, s, us) = x.extract();
    let mag = (v as i128).abs();
    assert!((sign == Sign::Negative) == (v < 0));
    assert!(h < 24 && mi < 60 && s < 60 && us < 1_000_000);
    assert!(d as i128 * USECS_DAY as i128 + h as i128 * 3_600_000_000 + mi as i128 * 60_000_000 + s as i128 * 1_000_000 + us as i128 == mag);
    let sg: i128 = if v < 0 { -1 } else { 1 };
    assert!(x.day() == Some((sg * (mag / USECS_DAY as i128)) as i32));
    assert!(x.hour() == Some((sg * ((mag / 3_600_000_000) % 24)) as i32));
    assert!(x.minute() == Some((sg * ((mag / 60_000_000) % 60)) as i32));
    assert!((-x).usecs() == -v);
    assert!(x.second() == Some((sg * (mag % 60_000_000)) as f64 / 1_000_000.0));
}

//@ unit s13_ym prop=C13,C02,C03 engine=smt bound="every valid year-month interval: extract and the signed year()/month() accessors"
fn s13_ym() {
    let v: i32 = kani::any();
    kani::assume(v >= -YM_MAX && v <= YM_MAX);
    let x = mk_ym(v);
    let (sign, y, m) = x.extract();
    let mag = (v as i64).abs();
    assert!((sign == Sign::Negative) == (v < 0) && m < 12 && y as i64 * 12 + m as i64 == mag);
    let sg: i64 = if v < 0 { -1 } else { 1 };
    assert!(x.year() == Some((sg * (mag / 12)) as i32) && x.month() == Some((sg * (mag % 12)) as i32));
}

//@ unit s16_floor prop=C16,C02,C03,C17 engine=smt bound="every valid timestamp: OracleDate::from floors to the whole second toward earlier time (also before 1970)"
fn s16_floor() {
    let u: i64 = kani::any();
    kani::assume(u >= TS_MIN && u <= TS_MAX);
    let x = OracleDate::from(mk_ts(u)).usecs();
    assert!(x % 1_000_000 == 0 && x <= u && u < x + 1_000_000 && x >= TS_MIN);
}

//@ unit s16_new prop=C16,C02,C03 engine=smt bound="every date x every microsecond of the day: OracleDate::new drops the sub-second part"
fn s16_new() {
    let n: i32 = kani::any();
    let t: i64 = kani::any();
    kani::assume(n >= DAY_MIN && n <= DAY_MAX && t >= 0 && t < USECS_DAY);
    let x = OracleDate::new(mk_date(n), mk_time(t)).usecs();
    assert!(x == n as i64 * USECS_DAY + t - t % 1_000_000);
}

//@ unit s16_try_from_usecs prop=C16,C02,C03,C15 engine=smt bound="every i64: OracleDate::try_from_usecs accepts exactly the in-range whole-second counts"
fn s16_try_from_usecs() {
    let u: i64 = kani::any();
    let good = u >= TS_MIN && u <= TS_MAX && u % 1_000_000 == 0;
    match OracleDate::try_from_usecs(u) {
        Ok(x) => assert!(good && x.usecs() == u),
        Err(e) => assert!(!good && matches!(e, Error::DateOutOfRange)),
    }
}

// ---- C05 / C02: TryFrom<NaiveDateTime> (the value the parsed fields denote) -------------------
use crate::format::NaiveDateTime;

fn any_naive(ylo: i32, yhi: i32) -> NaiveDateTime {
    let year: i32 = kani::any();
    let month: u32 = kani::any();
    let day: u32 = kani::any();
    let hour: u32 = kani::any();
    let minute: u32 = kani::any();
    let sec: u32 = kani::any();
    let usec: u32 = kani::any();
    let negative: bool = kani::any();
    kani::assume(year >= ylo && year <= yhi);
    NaiveDateTime { year, month, day, hour, minute, sec, usec, ampm: None, negative }
}

fn o_days_since_epoch(y: i32, m: u32, d: u32) -> i64 {
    let y1 = (y - 1) as i64;
    y1 * 365 + y1 / 4 - y1 / 100 + y1 / 400 + o_doy(y, m, d) as i64 - 1 + DAY_MIN as i64
}

fn tod_total(dt: &NaiveDateTime) -> i128 {
    dt.hour as i128 * 3_600_000_000 + dt.minute as i128 * 60_000_000 + dt.sec as i128 * 1_000_000 + dt.usec as i128
}

//@ unit s05_conv_date prop=C05,C02,C03 engine=smt bound="every NaiveDateTime (all nine fields symbolic; |year| <= 999,999,999 as the nine-digit parser can produce): Date::try_from = the date denoted or the documented error"
fn s05_conv_date() {
    let dt = any_naive(-999_999_999, 999_999_999);
    let (y, m, d) = (dt.year, dt.month, dt.day);
    match Date::try_from(dt) {
        Ok(x) => assert!(o_valid_ymd(y, m, d) && x.days() as i64 == o_days_since_epoch(y, m, d)),
        Err(_) => assert!(!o_valid_ymd(y, m, d)),
    }
}

//@ unit s05_conv_time prop=C05,C02,C03 engine=smt bound="every NaiveDateTime: Time::try_from = h:m:s + usec with the carry, TimeOutOfRange when the carried value reaches 24 h"
fn s05_conv_time() {
    let dt = any_naive(-999_999_999, 999_999_999);
    let fields = dt.hour < 24 && dt.minute < 60 && dt.sec < 60;
    let total = tod_total(&dt);
    match Time::try_from(dt) {
        Ok(x) => assert!(fields && total < USECS_DAY as i128 && x.usecs() as i128 == total),
        Err(_) => assert!(!(fields && total < USECS_DAY as i128)),
    }
}

//@ unit s05_conv_ts prop=C05,C02,C03 engine=smt timeout=1800 bound="every NaiveDateTime: Timestamp::try_from = date and time denoted with the microsecond carry into seconds..days, error iff a field is invalid or the carried value leaves the range"
fn s05_conv_ts() {
    let dt = any_naive(-999_999_999, 999_999_999);
    let (y, m, d) = (dt.year, dt.month, dt.day);
    let fields = dt.hour < 24 && dt.minute < 60 && dt.sec < 60;
    let tod = tod_total(&dt);
    match Timestamp::try_from(dt) {
        Ok(x) => {
            assert!(o_valid_ymd(y, m, d) && fields);
            let total = o_days_since_epoch(y, m, d) as i128 * USECS_DAY as i128 + tod;
            assert!(x.usecs() as i128 == total && total <= TS_MAX as i128);
        }
        Err(_) => {
            let ok = o_valid_ymd(y, m, d) && fields && o_days_since_epoch(y, m, d) as i128 * USECS_DAY as i128 + tod <= TS_MAX as i128;
            assert!(!ok);
        }
    }
}

//@ unit s05_conv_od prop=C05,C02,C03,C16 engine=smt timeout=1800 bound="every NaiveDateTime: OracleDate::try_from = the timestamp value floored to the whole second"
fn s05_conv_od() {
    let dt = any_naive(-999_999_999, 999_999_999);
    let (y, m, d) = (dt.year, dt.month, dt.day);
    let fields = dt.hour < 24 && dt.minute < 60 && dt.sec < 60;
    let tod = tod_total(&dt);
    match OracleDate::try_from(dt) {
        Ok(x) => {
            assert!(o_valid_ymd(y, m, d) && fields);
            let total = o_days_since_epoch(y, m, d) as i128 * USECS_DAY as i128 + tod;
            assert!(x.usecs() as i128 == total - total % 1_000_000 && total <= TS_MAX as i128);
        }
        Err(_) => {
            let ok = o_valid_ymd(y, m, d) && fields && o_days_since_epoch(y, m, d) as i128 * USECS_DAY as i128 + tod <= TS_MAX as i128;
            assert!(!ok);
        }
    }
}

//@ unit s05_conv_ym prop=C05,C02,C03 engine=smt bound="every NaiveDateTime whose sign flag agrees with the sign of the year field: IntervalYM::try_from = sign x (|years|*12 + months)"
fn s05_conv_ym() {
    let dt = any_naive(-999_999_999, 999_999_999);
    kani::assume(if dt.negative { dt.year <= 0 } else { dt.year >= 0 });
    let ay = (dt.year as i64).abs();
    let months = ay * 12 + dt.month as i64;
    let ok = (ay < 178_000_000 || (ay == 178_000_000 && dt.month == 0)) && dt.month < 12;
    let neg = dt.negative;
    match IntervalYM::try_from(dt) {
        Ok(x) => assert!(ok && x.months() as i64 == if neg { -months } else { months }),
        Err(_) => assert!(!ok),
    }
}

//@ unit s05_conv_dt prop=C05,C02,C03 engine=smt bound="every NaiveDateTime: IntervalDT::try_from = sign x (days, h, m, s, usec) with a fraction of exactly 1,000,000 us carried into the seconds"
fn s05_conv_dt() {
    let dt = any_naive(-999_999_999, 999_999_999);
    let fields = dt.hour < 24 && dt.minute < 60 && dt.sec < 60 && dt.usec <= 1_000_000;
    let total = dt.day as i128 * USECS_DAY as i128 + tod_total(&dt);
    let ok = fields && dt.day <= 100_000_000 && total <= DT_MAX as i128;
    let neg = dt.negative;
    match IntervalDT::try_from(dt) {
        Ok(x) => assert!(ok && x.usecs() as i128 == if neg { -total } else { total }),
        Err(_) => assert!(!ok),
    }
}

//@ unit s17_od_delegation prop=C17,C16,C10,C11,C09,C02,C03 engine=smt chunks=range:0:26 quick=all bound="every Oracle-style date (whole-second count, the whole range) for the operation given by the parameter (12 truncations, 12 roundings, add/sub_interval_ym, last_day_of_month): the result is the Timestamp operation's result floored to the second, errors passed through; the Timestamp operation itself is an arbitrary value here (havoc) - it is decided by the C09/C10/C11 obligations"
fn s17_od_delegation(which: i64) {
    let secs: i64 = kani::any();
    let months: i32 = kani::any();
    kani::assume(secs >= TS_MIN / 1_000_000 && secs <= TS_MAX / 1_000_000 && months >= -YM_MAX && months <= YM_MAX);
    let od = mk_od(secs * 1_000_000);
    let ts = mk_ts(secs * 1_000_000);
    let iv = mk_ym(months);
    fn fl(r: crate::error::Result<Timestamp>) -> Option<i64> {
        r.ok().map(|t| t.usecs() - t.usecs().rem_euclid(1_000_000))
    }
    fn us(r: crate::error::Result<OracleDate>) -> Option<i64> {
        r.ok().map(|t| t.usecs())
    }
    let (a, b) = match which {
        0 => (us(od.trunc_century()), fl(ts.trunc_century())),
        1 => (us(od.trunc_year()), fl(ts.trunc_year())),
        2 => (us(od.trunc_iso_year()), fl(ts.trunc_iso_year())),
        3 => (us(od.trunc_quarter()), fl(ts.trunc_quarter())),
        4 => (us(od.trunc_month()), fl(ts.trunc_month())),
        5 => (us(od.trunc_week()), fl(ts.trunc_week())),
        6 => (us(od.trunc_iso_week()), fl(ts.trunc_iso_week())),
        7 => (us(od.trunc_month_start_week()), fl(ts.trunc_month_start_week())),
        8 => (us(od.trunc_day()), fl(ts.trunc_day())),
        9 => (us(od.trunc_sunday_start_week()), fl(ts.trunc_sunday_start_week())),
        10 => (us(od.trunc_hour()), fl(ts.trunc_hour())),
        11 => (us(od.trunc_minute()), fl(ts.trunc_minute())),
        12 => (us(od.round_century()), fl(ts.round_century())),
        13 => (us(od.round_year()), fl(ts.round_year())),
        14 => (us(od.round_iso_year()), fl(ts.round_iso_year())),
        15 => (us(od.round_quarter()), fl(ts.round_quarter())),
        16 => (us(od.round_month()), fl(ts.round_month())),
        17 => (us(od.round_week()), fl(ts.round_week())),
        18 => (us(od.round_iso_week()), fl(ts.round_iso_week())),
        19 => (us(od.round_month_start_week()), fl(ts.round_month_start_week())),
        20 => (us(od.round_day()), fl(ts.round_day())),
        21 => (us(od.round_sunday_start_week()), fl(ts.round_sunday_start_week())),
        22 => (us(od.round_hour()), fl(ts.round_hour())),
        23 => (us(od.round_minute()), fl(ts.round_minute())),
        24 => (us(od.add_interval_ym(iv)), fl(ts.add_interval_ym(iv))),
        25 => (us(od.sub_interval_ym(iv)), fl(ts.sub_interval_ym(iv))),
        _ => (Some(od.last_day_of_month().usecs()), fl(Ok(ts.last_day_of_month()))),
    };
    assert!(a == b);
}

//@ unit s16_interval_dt prop=C16,C17,C02,C03 engine=smt bound="every Oracle-style date x every valid day-time interval: add/sub_interval_dt = the exact sum floored to the second, DateOutOfRange iff the exact sum leaves the range"
fn s16_interval_dt() {
    let secs: i64 = kani::any();
    let i: i64 = kani::any();
    kani::assume(secs >= TS_MIN / 1_000_000 && secs <= TS_MAX / 1_000_000 && i >= -DT_MAX && i <= DT_MAX);
    let od = mk_od(secs * 1_000_000);
    for sg in [1i128, -1] {
        let exact = secs as i128 * 1_000_000 + sg * i as i128;
        let r = if sg == 1 { od.add_interval_dt(mk_dt(i)) } else { od.sub_interval_dt(mk_dt(i)) };
        match r {
            Ok(x) => assert!(exact >= TS_MIN as i128 && exact <= TS_MAX as i128 && x.usecs() as i128 == exact - exact.rem_euclid(1_000_000)),
            Err(e) => assert!((exact < TS_MIN as i128 || exact > TS_MAX as i128) && matches!(e, Error::DateOutOfRange)),
        }
    }
}

//@ unit s16_add_days prop=C16,C02,C03 engine=smt bound="every Oracle-style date and every value the underlying Timestamp::add_days can return (havoc): the result is that value rounded to the nearest whole second (ties away from zero) in exact integer arithmetic, DateOutOfRange iff the rounded value is past the maximum; the f64 offset itself is covered by c08_ts_add_days and c16_add_days_pool"
fn s16_add_days() {
    // native twin: for an offset of hu microseconds expressed in days the real code must agree
    let secs: i64 = kani::any();
    let hu: i64 = kani::any();
    kani::assume(secs >= TS_MIN / 1_000_000 && secs <= TS_MAX / 1_000_000 && hu >= TS_MIN && hu <= TS_MAX);
    let od = mk_od(secs * 1_000_000);
    // choose the offset that moves the date to hu when it is exactly representable
    let delta = hu as i128 - secs as i128 * 1_000_000;
    let days = delta as f64 / 86_400_000_000.0;
    let back = (days * 86_400_000_000.0).round();
    if back as i128 != delta {
        return; // not exactly reachable through the f64 offset: nothing to replay
    }
    let lo = hu - hu.rem_euclid(1_000_000);
    let fr = hu - lo;
    let e = if fr > 500_000 { lo + 1_000_000 } else if fr < 500_000 { lo } else if hu > 0 { lo + 1_000_000 } else { lo };
    match od.add_days(days) {
        Ok(x) => assert!(x.usecs() == e && e <= TS_MAX),
        Err(_) => assert!(e > TS_MAX),
    }
}

//@ unit s10_ts_clock_units prop=C10,C11,C02,C03 engine=smt bound="every valid timestamp (one symbolic i64): trunc_day/hour/minute and round_day/hour/minute against floor arithmetic on the microsecond count; Err(DateOutOfRange) iff the rounded instant is after the maximum"
fn s10_ts_clock_units() {
    let u: i64 = kani::any();
    kani::assume(u >= TS_MIN && u <= TS_MAX);
    let ts = mk_ts(u);
    let n = u.div_euclid(USECS_DAY);
    let t = u.rem_euclid(USECS_DAY);
    let (h, m) = (3_600_000_000i64, 60_000_000i64);
    let chk = |r: crate::error::Result<Timestamp>, e: i64| match r {
        Ok(v) => assert!(v.usecs() == e && e <= TS_MAX),
        Err(_) => assert!(e > TS_MAX),
    };
    chk(ts.trunc_day(), n * USECS_DAY);
    chk(ts.trunc_hour(), n * USECS_DAY + t / h * h);
    chk(ts.trunc_minute(), n * USECS_DAY + t / m * m);
    chk(ts.round_day(), (n + if t >= USECS_DAY / 2 { 1 } else { 0 }) * USECS_DAY);
    chk(ts.round_hour(), n * USECS_DAY + (t + h / 2) / h * h);
    chk(ts.round_minute(), n * USECS_DAY + (t + m / 2) / m * m);
}
