//@ attach src/lib.rs
//! Native twins of the SMT obligations in harness/smt_specs.py.  The property itself is decided
//! by z3 over the MIR of the crate's functions (tools/mirsmt.py) for *every* value of the inputs;
//! the function of the same name here draws the same inputs in the same order and asserts the
//! same property against the real code, so that a model found by the solver can be replayed on a
//! native build before it is reported.  (`engine=smt`: not compiled into a Kani proof.)
#![allow(dead_code, unused_imports)]
use super::*;
#[cfg(not(kani))]
use crate::verif_support::kani;
use crate::verif_support::*;
use crate::{Date, DateTime, Error, IntervalDT, IntervalYM, OracleDate, Round, Sign, Time, Timestamp, Trunc};
use std::convert::TryFrom;

fn emod(x: i128, m: i128) -> i128 {
    ((x % m) + m) % m
}

//@ unit s01_inverse prop=C01,C09,C10,C11 engine=smt tier=thorough timeout=2400 mem=4 bound="every day number 0001-01-01..9999-12-31 (one symbolic i32): extract(n) is a real date and try_from_ymd(extract(n)) == Ok(n)"
fn s01_inverse() {
    let n: i32 = kani::any();
    kani::assume(n >= DAY_MIN && n <= DAY_MAX);
    let (y, m, d) = mk_date(n).extract();
    assert!(o_valid_ymd(y, m, d));
    assert!(Date::try_from_ymd(y, m, d).map(|x| x.days()) == Ok(n));
}

//@ unit s01_step prop=C01,C09,C10,C11 engine=smt tier=thorough timeout=3600 mem=4 bound="every day number but the last: extract(n+1) is the calendar successor of extract(n)"
fn s01_step() {
    let n: i32 = kani::any();
    kani::assume(n >= DAY_MIN && n < DAY_MAX);
    let (y, m, d) = mk_date(n).extract();
    assert!(mk_date(n + 1).extract() == o_succ(y, m, d));
}

//@ unit s01_weekday prop=C01 engine=smt bound="every day number: day_of_week = (n + 4) mod 7 + 1 with Sunday = 1, i.e. day 0 is a Thursday and the weekday advances by one each day"
fn s01_weekday() {
    let n: i32 = kani::any();
    kani::assume(n >= DAY_MIN && n <= DAY_MAX);
    assert!(mk_date(n).day_of_week() as u32 == o_weekday(n));
}

//@ unit s07_split prop=C07,C02,C03 engine=smt bound="every date x every microsecond of the day (two symbolic integers, the whole range): new/extract/date/time"
fn s07_split() {
    let n: i32 = kani::any();
    let t: i64 = kani::any();
    kani::assume(n >= DAY_MIN && n <= DAY_MAX && t >= 0 && t < USECS_DAY);
    let ts = Timestamp::new(mk_date(n), mk_time(t));
    assert!(ts.usecs() as i128 == n as i128 * USECS_DAY as i128 + t as i128);
    assert!(ts.usecs() >= TS_MIN && ts.usecs() <= TS_MAX);
    let (d, tm) = ts.extract();
    assert!(d.days() == n && tm.usecs() == t);
    assert!(Timestamp::date(ts).days() == n && Timestamp::time(ts).usecs() == t);
}

//@ unit s07_split_any prop=C07,C02,C03,C09,C10,C11,C16,C17 engine=smt bound="every valid timestamp count (one symbolic i64): extract/date/time return the unique (n, t) with n*86400e6 + t == u, 0 <= t < 86400e6 - discharges the TS-split contract"
fn s07_split_any() {
    let u: i64 = kani::any();
    kani::assume(u >= TS_MIN && u <= TS_MAX);
    let ts = mk_ts(u);
    let (d, tm) = ts.extract();
    assert!(d.days() as i128 * USECS_DAY as i128 + tm.usecs() as i128 == u as i128);
    assert!(tm.usecs() >= 0 && tm.usecs() < USECS_DAY && d.days() >= DAY_MIN && d.days() <= DAY_MAX);
    assert!(Timestamp::date(ts) == d && Timestamp::time(ts) == tm);
}

//@ unit s07_time_fields prop=C07,C02,C03 engine=smt bound="every microsecond of the day: Time::extract fields and the hour()/minute() accessors"
fn s07_time_fields() {
    let t: i64 = kani::any();
    kani::assume(t >= 0 && t < USECS_DAY);
    let (h, mi, s, us) = mk_time(t).extract();
    assert!(h < 24 && mi < 60 && s < 60 && us < 1_000_000);
    assert!(h as i64 * 3_600_000_000 + mi as i64 * 60_000_000 + s as i64 * 1_000_000 + us as i64 == t);
    assert!(mk_time(t).hour() == Some(h as i32) && mk_time(t).minute() == Some(mi as i32));
    assert!(mk_time(t).second() == Some((t % 60_000_000) as f64 / 1_000_000.0));
}

//@ unit s07_ts_time_accessors prop=C07,C03 engine=smt bound="every valid timestamp: hour(), minute(), second() are those of its time of day"
fn s07_ts_time_accessors() {
    let u: i64 = kani::any();
    kani::assume(u >= TS_MIN && u <= TS_MAX);
    let t = u.rem_euclid(USECS_DAY);
    let ts = mk_ts(u);
    assert!(ts.hour() == Some((t / 3_600_000_000) as i32) && ts.minute() == Some(((t / 60_000_000) % 60) as i32));
    assert!(ts.second() == Some((t % 60_000_000) as f64 / 1_000_000.0));
}

//@ unit s12_add prop=C12,C02,C03 engine=smt bound="every microsecond of the day x every valid day-time interval (the whole +-8.64e18 us range): add/sub_interval_dt = (t +- i) mod 24 h"
fn s12_add() {
    let t: i64 = kani::any();
    let i: i64 = kani::any();
    kani::assume(t >= 0 && t < USECS_DAY && i >= -DT_MAX && i <= DT_MAX);
    let r = mk_time(t).add_interval_dt(mk_dt(i));
    assert!(r.usecs() as i128 == emod(t as i128 + i as i128, USECS_DAY as i128));
    let s = mk_time(t).sub_interval_dt(mk_dt(i));
    assert!(s.usecs() as i128 == emod(t as i128 - i as i128, USECS_DAY as i128));
}

//@ unit s12_from_interval prop=C12,C02,C03 engine=smt bound="every valid day-time interval: Time::from keeps |i| mod 24 h"
fn s12_from_interval() {
    let i: i64 = kani::any();
    kani::assume(i >= -DT_MAX && i <= DT_MAX);
    assert!(Time::from(mk_dt(i)).usecs() as i128 == (i as i128).abs() % USECS_DAY as i128);
}

//@ unit s13_dt prop=C13,C02,C03 engine=smt timeout=1200 bound="every valid day-time interval (one symbolic i64 over the whole range): extract, signed day/hour/minute accessors, negate"
fn s13_dt() {
    let v: i64 = kani::any();
    kani::assume(v >= -DT_MAX && v <= DT_MAX);
    let x = mk_dt(v);
    let (sign, d, h, mi, s, us) = x.extract();
    let mag = (v as i128).abs();
    assert!((sign == Sign::Negative) == (v < 0));
    assert!(h < 24 && mi < 60 && s < 60 && us < 1_000_000);
    assert!(d as i128 * USECS_DAY as i128 + h as i128 * 3_600_000_000 + mi as i128 * 60_000_000 + s as i128 * 1_000_000 + us as i128 == mag);
    let sg: i128 = if v < 0 { -1 } else { 1 };
    assert!(x.day() == Some((sg * (mag / USECS_DAY as i128)) as i32));
    assert!(x.hour() == Some((sg * ((mag / 3_600_000_000) % 24)) as i32));
    assert!(x.minute() == Some((sg * ((mag / 60_000_000) % 60)) as i32));
    assert!((-x).usecs() == -v);
    assert!(x.second() == Some((sg * (mag % 60_000_000)) as f64 / 1_000_000.0));
}

//@ unit s13_ym prop=C13,C02,C03 engine=smt bound="every valid year-month interval: extract and the signed year()/month() accessors"
fn s13_ym() {
    let v: i32 = kani::any();
    kani::assume(v >= -YM_MAX && v <= YM_MAX);
    let x = mk_ym(v);
    let (sign, y, m) = x.extract();
    let mag = (v as i64).abs();
    assert!((sign == Sign::Negative) == (v < 0) && m < 12 && y as i64 * 12 + m as i64 == mag);
    let sg: i64 = if v < 0 { -1 } else { 1 };
    assert!(x.year() == Some((sg * (mag / 12)) as i32) && x.month() == Some((sg * (mag % 12)) as i32));
}

//@ unit s16_floor prop=C16,C02,C03,C17 engine=smt bound="every valid timestamp: OracleDate::from floors to the whole second toward earlier time (also before 1970)"
fn s16_floor() {
    let u: i64 = kani::any();
    kani::assume(u >= TS_MIN && u <= TS_MAX);
    let x = OracleDate::from(mk_ts(u)).usecs();
    assert!(x % 1_000_000 == 0 && x <= u && u < x + 1_000_000 && x >= TS_MIN);
}

//@ unit s16_new prop=C16,C02,C03 engine=smt bound="every date x every microsecond of the day: OracleDate::new drops the sub-second part"
fn s16_new() {
    let n: i32 = kani::any();
    let t: i64 = kani::any();
    kani::assume(n >= DAY_MIN && n <= DAY_MAX && t >= 0 && t < USECS_DAY);
    let x = OracleDate::new(mk_date(n), mk_time(t)).usecs();
    assert!(x == n as i64 * USECS_DAY + t - t % 1_000_000);
}

//@ unit s16_try_from_usecs prop=C16,C02,C03,C15 engine=smt bound="every i64: OracleDate::try_from_usecs accepts exactly the in-range whole-second counts"
fn s16_try_from_usecs() {
    let u: i64 = kani::any();
    let good = u >= TS_MIN && u <= TS_MAX && u % 1_000_000 == 0;
    match OracleDate::try_from_usecs(u) {
        Ok(x) => assert!(good && x.usecs() == u),
        Err(e) => assert!(!good && matches!(e, Error::DateOutOfRange)),
    }
}

// ---- C05 / C02: TryFrom<NaiveDateTime> (the value the parsed fields denote) -------------------
use crate::format::NaiveDateTime;

fn any_naive(ylo: i32, yhi: i32) -> NaiveDateTime {
    let year: i32 = kani::any();
    let month: u32 = kani::any();
    let day: u32 = kani::any();
    let hour: u32 = kani::any();
    let minute: u32 = kani::any();
    let sec: u32 = kani::any();
    let usec: u32 = kani::any();
    let negative: bool = kani::any();
    kani::assume(year >= ylo && year <= yhi);
    NaiveDateTime { year, month, day, hour, minute, sec, usec, ampm: None, negative }
}

fn o_days_since_epoch(y: i32, m: u32, d: u32) -> i64 {
    let y1 = (y - 1) as i64;
    y1 * 365 + y1 / 4 - y1 / 100 + y1 / 400 + o_doy(y, m, d) as i64 - 1 + DAY_MIN as i64
}

fn assert_ymd_error(e: &Error, y: i32, m: u32, d: u32) {
    if y < 1 || y > 9999 {
        assert!(matches!(e, Error::DateOutOfRange));
    } else if m < 1 || m > 12 {
        assert!(matches!(e, Error::InvalidMonth));
    } else if d < 1 || d > 31 {
        assert!(matches!(e, Error::InvalidDay));
    } else {
        assert!(matches!(e, Error::InvalidDate));
    }
}

fn assert_hms_error(e: &Error, h: u32, mi: u32, _s: u32) {
    if h >= 24 {
        assert!(matches!(e, Error::TimeOutOfRange));
    } else if mi >= 60 {
        assert!(matches!(e, Error::InvalidMinute));
    } else {
        assert!(matches!(e, Error::InvalidSecond));
    }
}

fn tod_total(dt: &NaiveDateTime) -> i128 {
    dt.hour as i128 * 3_600_000_000 + dt.minute as i128 * 60_000_000 + dt.sec as i128 * 1_000_000 + dt.usec as i128
}

//@ unit s05_conv_date prop=C05,C02,C03,C15 engine=smt chunks=tuples:-999999999,0;1,1250;1251,2500;2501,3750;3751,5000;5001,6250;6251,7500;7501,8750;8751,9999;10000,999999999 quick=all bound="every NaiveDateTime (all nine fields symbolic; year in the sub-range given by the parameters - together |year| <= 999,999,999 as the nine-digit parser can produce): Date::try_from = the date denoted or the documented error"
fn s05_conv_date(ylo: i32, yhi: i32) {
    let dt = any_naive(ylo, yhi);
    let (y, m, d) = (dt.year, dt.month, dt.day);
    match Date::try_from(dt) {
        Ok(x) => assert!(o_valid_ymd(y, m, d) && x.days() as i64 == o_days_since_epoch(y, m, d)),
        Err(e) => {
            assert!(!o_valid_ymd(y, m, d));
            assert_ymd_error(&e, y, m, d);
        }
    }
}

//@ unit s05_conv_time prop=C05,C02,C03,C15 engine=smt bound="every NaiveDateTime: Time::try_from = h:m:s + usec with the carry, TimeOutOfRange when the carried value reaches 24 h"
fn s05_conv_time() {
    let dt = any_naive(-999_999_999, 999_999_999);
    let fields = dt.hour < 24 && dt.minute < 60 && dt.sec < 60;
    let total = tod_total(&dt);
    let (h, mi, sc) = (dt.hour, dt.minute, dt.sec);
    match Time::try_from(dt) {
        Ok(x) => assert!(fields && total < USECS_DAY as i128 && x.usecs() as i128 == total),
        Err(e) => {
            assert!(!(fields && total < USECS_DAY as i128));
            if fields {
                assert!(matches!(e, Error::TimeOutOfRange));
            } else {
                assert_hms_error(&e, h, mi, sc);
            }
        }
    }
}

//@ unit s05_conv_ts prop=C05,C02,C03,C15 engine=smt timeout=1800 chunks=tuples:-999999999,0;1,1250;1251,2500;2501,3750;3751,5000;5001,6250;6251,7500;7501,8750;8751,9999;10000,999999999 quick=all bound="every NaiveDateTime (year in the sub-range given by the parameters): Timestamp::try_from = date and time denoted with the microsecond carry into seconds..days, error iff a field is invalid or the carried value leaves the range"
fn s05_conv_ts(ylo: i32, yhi: i32) {
    let dt = any_naive(ylo, yhi);
    let (y, m, d) = (dt.year, dt.month, dt.day);
    let fields = dt.hour < 24 && dt.minute < 60 && dt.sec < 60;
    let tod = tod_total(&dt);
    let (hh, mi2, ss) = (dt.hour, dt.minute, dt.sec);
    match Timestamp::try_from(dt) {
        Ok(x) => {
            assert!(o_valid_ymd(y, m, d) && fields);
            let total = o_days_since_epoch(y, m, d) as i128 * USECS_DAY as i128 + tod;
            assert!(x.usecs() as i128 == total && total <= TS_MAX as i128);
        }
        Err(e) => {
            let ok = o_valid_ymd(y, m, d) && fields && o_days_since_epoch(y, m, d) as i128 * USECS_DAY as i128 + tod <= TS_MAX as i128;
            assert!(!ok);
            if !o_valid_ymd(y, m, d) {
                assert_ymd_error(&e, y, m, d);
            } else if !fields {
                assert_hms_error(&e, hh, mi2, ss);
            } else {
                assert!(matches!(e, Error::DateOutOfRange));
            }
        }
    }
}

//@ unit s05_conv_od prop=C05,C02,C03,C16,C15 engine=smt timeout=1800 bound="every NaiveDateTime with a year in 1..=9999: OracleDate::try_from = Timestamp::try_from (replaced by its contract, which s05_conv_ts decides) floored to the whole second, errors passed through"
fn s05_conv_od() {
    let dt = any_naive(1, 9999);
    let (y, m, d) = (dt.year, dt.month, dt.day);
    let fields = dt.hour < 24 && dt.minute < 60 && dt.sec < 60;
    let tod = tod_total(&dt);
    match OracleDate::try_from(dt) {
        Ok(x) => {
            assert!(o_valid_ymd(y, m, d) && fields);
            let total = o_days_since_epoch(y, m, d) as i128 * USECS_DAY as i128 + tod;
            assert!(x.usecs() as i128 == total - total % 1_000_000 && total <= TS_MAX as i128);
        }
        Err(_) => {
            let ok = o_valid_ymd(y, m, d) && fields && o_days_since_epoch(y, m, d) as i128 * USECS_DAY as i128 + tod <= TS_MAX as i128;
            assert!(!ok);
        }
    }
}

//@ unit s05_conv_ym prop=C05,C02,C03,C15 engine=smt bound="every NaiveDateTime whose sign flag agrees with the sign of the year field: IntervalYM::try_from = sign x (|years|*12 + months)"
fn s05_conv_ym() {
    let dt = any_naive(-999_999_999, 999_999_999);
    kani::assume(if dt.negative { dt.year <= 0 } else { dt.year >= 0 });
    let ay = (dt.year as i64).abs();
    let months = ay * 12 + dt.month as i64;
    let ok = (ay < 178_000_000 || (ay == 178_000_000 && dt.month == 0)) && dt.month < 12;
    let neg = dt.negative;
    match IntervalYM::try_from(dt) {
        Ok(x) => assert!(ok && x.months() as i64 == if neg { -months } else { months }),
        Err(_) => assert!(!ok),
    }
}

//@ unit s05_conv_dt prop=C05,C02,C03,C15 engine=smt bound="every NaiveDateTime: IntervalDT::try_from = sign x (days, h, m, s, usec) with a fraction of exactly 1,000,000 us carried into the seconds"
fn s05_conv_dt() {
    let dt = any_naive(-999_999_999, 999_999_999);
    let fields = dt.hour < 24 && dt.minute < 60 && dt.sec < 60 && dt.usec <= 1_000_000;
    let total = dt.day as i128 * USECS_DAY as i128 + tod_total(&dt);
    let ok = fields && dt.day <= 100_000_000 && total <= DT_MAX as i128;
    let neg = dt.negative;
    match IntervalDT::try_from(dt) {
        Ok(x) => assert!(ok && x.usecs() as i128 == if neg { -total } else { total }),
        Err(_) => assert!(!ok),
    }
}

//@ unit s17_od_delegation prop=C17,C16,C10,C11,C09,C02,C03 engine=smt chunks=range:0:26 quick=all bound="every Oracle-style date (whole-second count, the whole range) for the operation given by the parameter (12 truncations, 12 roundings, add/sub_interval_ym, last_day_of_month): the result is the Timestamp operation's result floored to the second, errors passed through; the Timestamp operation itself is an arbitrary value here (havoc) - it is decided by the C09/C10/C11 obligations"
fn s17_od_delegation(which: i64) {
    let secs: i64 = kani::any();
    let months: i32 = kani::any();
    kani::assume(secs >= TS_MIN / 1_000_000 && secs <= TS_MAX / 1_000_000 && months >= -YM_MAX && months <= YM_MAX);
    let od = mk_od(secs * 1_000_000);
    let ts = mk_ts(secs * 1_000_000);
    let iv = mk_ym(months);
    fn fl(r: crate::error::Result<Timestamp>) -> Option<i64> {
        r.ok().map(|t| t.usecs() - t.usecs().rem_euclid(1_000_000))
    }
    fn us(r: crate::error::Result<OracleDate>) -> Option<i64> {
        r.ok().map(|t| t.usecs())
    }
    let (a, b) = match which {
        0 => (us(od.trunc_century()), fl(ts.trunc_century())),
        1 => (us(od.trunc_year()), fl(ts.trunc_year())),
        2 => (us(od.trunc_iso_year()), fl(ts.trunc_iso_year())),
        3 => (us(od.trunc_quarter()), fl(ts.trunc_quarter())),
        4 => (us(od.trunc_month()), fl(ts.trunc_month())),
        5 => (us(od.trunc_week()), fl(ts.trunc_week())),
        6 => (us(od.trunc_iso_week()), fl(ts.trunc_iso_week())),
        7 => (us(od.trunc_month_start_week()), fl(ts.trunc_month_start_week())),
        8 => (us(od.trunc_day()), fl(ts.trunc_day())),
        9 => (us(od.trunc_sunday_start_week()), fl(ts.trunc_sunday_start_week())),
        10 => (us(od.trunc_hour()), fl(ts.trunc_hour())),
        11 => (us(od.trunc_minute()), fl(ts.trunc_minute())),
        12 => (us(od.round_century()), fl(ts.round_century())),
        13 => (us(od.round_year()), fl(ts.round_year())),
        14 => (us(od.round_iso_year()), fl(ts.round_iso_year())),
        15 => (us(od.round_quarter()), fl(ts.round_quarter())),
        16 => (us(od.round_month()), fl(ts.round_month())),
        17 => (us(od.round_week()), fl(ts.round_week())),
        18 => (us(od.round_iso_week()), fl(ts.round_iso_week())),
        19 => (us(od.round_month_start_week()), fl(ts.round_month_start_week())),
        20 => (us(od.round_day()), fl(ts.round_day())),
        21 => (us(od.round_sunday_start_week()), fl(ts.round_sunday_start_week())),
        22 => (us(od.round_hour()), fl(ts.round_hour())),
        23 => (us(od.round_minute()), fl(ts.round_minute())),
        24 => (us(od.add_interval_ym(iv)), fl(ts.add_interval_ym(iv))),
        25 => (us(od.sub_interval_ym(iv)), fl(ts.sub_interval_ym(iv))),
        _ => (Some(od.last_day_of_month().usecs()), fl(Ok(ts.last_day_of_month()))),
    };
    assert!(a == b);
}

//@ unit s16_interval_dt prop=C16,C17,C02,C03 engine=smt bound="every Oracle-style date x every valid day-time interval: add/sub_interval_dt = the exact sum floored to the second, DateOutOfRange iff the exact sum leaves the range"
fn s16_interval_dt() {
    let secs: i64 = kani::any();
    let i: i64 = kani::any();
    kani::assume(secs >= TS_MIN / 1_000_000 && secs <= TS_MAX / 1_000_000 && i >= -DT_MAX && i <= DT_MAX);
    let od = mk_od(secs * 1_000_000);
    for sg in [1i128, -1] {
        let exact = secs as i128 * 1_000_000 + sg * i as i128;
        let r = if sg == 1 { od.add_interval_dt(mk_dt(i)) } else { od.sub_interval_dt(mk_dt(i)) };
        match r {
            Ok(x) => assert!(exact >= TS_MIN as i128 && exact <= TS_MAX as i128 && x.usecs() as i128 == exact - exact.rem_euclid(1_000_000)),
            Err(e) => assert!((exact < TS_MIN as i128 || exact > TS_MAX as i128) && matches!(e, Error::DateOutOfRange)),
        }
    }
}

//@ unit s16_add_days prop=C16,C02,C03,C17 engine=smt bound="every Oracle-style date and every value the underlying Timestamp::add_days can return (havoc): the result is that value rounded to the nearest whole second (ties away from zero) in exact integer arithmetic, DateOutOfRange iff the rounded value is past the maximum; the f64 offset itself is covered by c08_ts_add_days and c16_add_days_pool"
fn s16_add_days() {
    // native twin: the intermediate timestamp `hu` is reached from the Oracle-style date of its own
    // whole second by an offset below one second (exactly representable as a day fraction); the
    // model's own date operand is drawn to keep the input order but not used
    let _secs: i64 = kani::any();
    let hu: i64 = kani::any();
    kani::assume(hu >= TS_MIN && hu <= TS_MAX);
    let lo = hu - hu.rem_euclid(1_000_000);
    let od = mk_od(lo);
    let delta = hu - lo;
    let days = delta as f64 / 86_400_000_000.0;
    let back = (days * 86_400_000_000.0).round();
    if back as i64 != delta {
        return; // not exactly reachable through the f64 offset: nothing to replay
    }
    let fr = hu - lo;
    let e = if fr > 500_000 { lo + 1_000_000 } else if fr < 500_000 { lo } else if hu > 0 { lo + 1_000_000 } else { lo };
    match od.add_days(days) {
        Ok(x) => assert!(x.usecs() == e && e <= TS_MAX),
        Err(_) => assert!(e > TS_MAX),
    }
}

//@ unit s10_ts_clock_units prop=C10,C11,C02,C03 engine=smt bound="every valid timestamp (one symbolic i64): trunc_day/hour/minute and round_day/hour/minute against floor arithmetic on the microsecond count; Err(DateOutOfRange) iff the rounded instant is after the maximum"
fn s10_ts_clock_units() {
    let u: i64 = kani::any();
    kani::assume(u >= TS_MIN && u <= TS_MAX);
    let ts = mk_ts(u);
    let n = u.div_euclid(USECS_DAY);
    let t = u.rem_euclid(USECS_DAY);
    let (h, m) = (3_600_000_000i64, 60_000_000i64);
    let chk = |r: crate::error::Result<Timestamp>, e: i64| match r {
        Ok(v) => assert!(v.usecs() == e && e <= TS_MAX),
        Err(_) => assert!(e > TS_MAX),
    };
    chk(ts.trunc_day(), n * USECS_DAY);
    chk(ts.trunc_hour(), n * USECS_DAY + t / h * h);
    chk(ts.trunc_minute(), n * USECS_DAY + t / m * m);
    chk(ts.round_day(), (n + if t >= USECS_DAY / 2 { 1 } else { 0 }) * USECS_DAY);
    chk(ts.round_hour(), n * USECS_DAY + (t + h / 2) / h * h);
    chk(ts.round_minute(), n * USECS_DAY + (t + m / 2) / m * m);
}

//@ unit s09_add_months prop=C09,C02,C03 engine=smt timeout=1800 bound="every real date (y, m, d) x every month offset k in +-2,136,000,000 (four symbolic integers): year/month carry by floor division, day kept, error exactly when that month has no such day or the year leaves 1..=9999; Date::extract is replaced by its contract (C01)"
fn s09_add_months() {
    let y: i32 = kani::any();
    let m: u32 = kani::any();
    let d: u32 = kani::any();
    let k: i32 = kani::any();
    kani::assume(o_valid_ymd(y, m, d) && k >= -YM_MAX && k <= YM_MAX);
    let date = Date::try_from_ymd(y, m, d).unwrap();
    let idx = 12 * y as i64 + (m as i64 - 1) + k as i64;
    let (y2, m2) = (idx.div_euclid(12), idx.rem_euclid(12) as u32 + 1);
    let ok = y2 >= 1 && y2 <= 9999 && d <= o_dim(y2 as i32, m2);
    match date.add_interval_ym(mk_ym(k)) {
        Ok(ts) => assert!(ok && ts.usecs() == Date::try_from_ymd(y2 as i32, m2, d).unwrap().days() as i64 * USECS_DAY),
        Err(_) => assert!(!ok),
    }
}

//@ unit s08_date_usecs prop=C08,C17,C02,C03 engine=smt bound="every valid date x every valid day-time interval / time of day / timestamp: Date::add/sub_interval_dt, add/sub_time, sub_timestamp, Timestamp::sub_date, Timestamp::from(Date) equal exact arithmetic on the midnight count; Ok iff the exact result is in range"
fn s08_date_usecs() {
    let n: i32 = kani::any();
    let i: i64 = kani::any();
    let t: i64 = kani::any();
    let u: i64 = kani::any();
    kani::assume(n >= DAY_MIN && n <= DAY_MAX && i >= -DT_MAX && i <= DT_MAX && t >= 0 && t < USECS_DAY && u >= TS_MIN && u <= TS_MAX);
    let d = mk_date(n);
    let base = n as i128 * USECS_DAY as i128;
    let chk = |r: crate::error::Result<Timestamp>, e: i128| match r {
        Ok(v) => assert!(v.usecs() as i128 == e && e >= TS_MIN as i128 && e <= TS_MAX as i128),
        Err(er) => assert!((e < TS_MIN as i128 || e > TS_MAX as i128) && matches!(er, Error::DateOutOfRange)),
    };
    chk(d.add_interval_dt(mk_dt(i)), base + i as i128);
    chk(d.sub_interval_dt(mk_dt(i)), base - i as i128);
    chk(d.sub_time(mk_time(t)), base - t as i128);
    chk(Ok(d.add_time(mk_time(t))), base + t as i128);
    assert!(d.sub_timestamp(mk_ts(u)).usecs() as i128 == base - u as i128);
    assert!(mk_ts(u).sub_date(d).usecs() as i128 == u as i128 - base);
    assert!(Timestamp::from(d).usecs() as i128 == base);
}

//@ unit s08_ts_usecs prop=C08,C02,C03 engine=smt bound="every valid timestamp x every valid day-time interval / time of day / timestamp: add/sub_interval_dt, add/sub_time, sub_timestamp equal exact arithmetic; Ok iff in range"
fn s08_ts_usecs() {
    let a: i64 = kani::any();
    let i: i64 = kani::any();
    let t: i64 = kani::any();
    let b: i64 = kani::any();
    kani::assume(a >= TS_MIN && a <= TS_MAX && i >= -DT_MAX && i <= DT_MAX && t >= 0 && t < USECS_DAY && b >= TS_MIN && b <= TS_MAX);
    let x = mk_ts(a);
    let chk = |r: crate::error::Result<Timestamp>, e: i128| match r {
        Ok(v) => assert!(v.usecs() as i128 == e && e >= TS_MIN as i128 && e <= TS_MAX as i128),
        Err(er) => assert!((e < TS_MIN as i128 || e > TS_MAX as i128) && matches!(er, Error::DateOutOfRange)),
    };
    chk(x.add_interval_dt(mk_dt(i)), a as i128 + i as i128);
    chk(x.sub_interval_dt(mk_dt(i)), a as i128 - i as i128);
    chk(x.add_time(mk_time(t)), a as i128 + t as i128);
    chk(x.sub_time(mk_time(t)), a as i128 - t as i128);
    assert!(x.sub_timestamp(mk_ts(b)).usecs() as i128 == a as i128 - b as i128);
}

// ---- C10 / C11 on Date (every real date, Date::extract under its contract) ---------------------
fn o_daynum_t(y: i32, m: u32, d: u32) -> i32 {
    crate::common::date2julian(y, m, d) - 2_440_588
}
fn o_iso_start_t(y: i32) -> i32 {
    let j4 = o_daynum_t(y, 1, 4);
    j4 - ((o_weekday(j4) as i32 + 5) % 7)
}
fn o_trunc_t(unit: i64, y: i32, m: u32, d: u32, n: i32) -> i32 {
    let wd = o_weekday(n) as i32;
    match unit {
        0 => o_daynum_t(y - (y - 1) % 100, 1, 1),
        1 => o_daynum_t(y, 1, 1),
        2 => {
            let s0 = o_iso_start_t(y);
            if n < s0 {
                o_iso_start_t(y - 1)
            } else if n >= o_iso_start_t(y + 1) {
                o_iso_start_t(y + 1)
            } else {
                s0
            }
        }
        3 => o_daynum_t(y, (m - 1) / 3 * 3 + 1, 1),
        4 => o_daynum_t(y, m, 1),
        5 => n - ((n - o_daynum_t(y, 1, 1)) % 7),
        6 => n - ((wd + 5) % 7),
        7 => n - ((d as i32 - 1) % 7),
        9 => n - (wd - 1),
        _ => n,
    }
}

//@ unit s10_date prop=C10,C02,C03 qsel=C02:0+1+3+4+5+6+7+8+9+10+11;C03:0+1+3+4+5+6+7+8+9+10+11;C10:0+1+3+4+5+6+7+8+9+10+11 engine=smt chunks=tuples:0,1,9999;1,1,9999;2,1,9999;3,1,9999;4,1,9999;5,1,9999;6,1,9999;7,1,9999;8,1,9999;9,1,9999;10,1,9999;11,1,9999 quick=all timeout=3000 mem=4 bound="Date truncation to the unit given by the first parameter (0 century .. 11 minute) for every real date of the years given by the other two (together 0001-01-01..9999-12-31; three symbolic integers): the result is the start of the unit containing the date, DateOutOfRange iff that start precedes 0001-01-01; Date::extract is replaced by its contract for the date under test (decided by C01)"
fn s10_date(unit: i64, ylo: i32, yhi: i32) {
    let y: i32 = kani::any();
    let m: u32 = kani::any();
    let d: u32 = kani::any();
    kani::assume(o_valid_ymd(y, m, d) && y >= ylo && y <= yhi);
    let x = Date::try_from_ymd(y, m, d).unwrap();
    let n = x.days();
    let b = o_trunc_t(unit, y, m, d, n);
    let r = match unit {
        0 => x.trunc_century(),
        1 => x.trunc_year(),
        2 => x.trunc_iso_year(),
        3 => x.trunc_quarter(),
        4 => x.trunc_month(),
        5 => x.trunc_week(),
        6 => x.trunc_iso_week(),
        7 => x.trunc_month_start_week(),
        8 => x.trunc_day(),
        9 => x.trunc_sunday_start_week(),
        10 => x.trunc_hour(),
        _ => x.trunc_minute(),
    };
    match r {
        Ok(v) => assert!(b >= DAY_MIN && v.days() == b),
        Err(_) => assert!(b < DAY_MIN),
    }
}

//@ unit s11_date prop=C11,C02,C03 qsel=C02:0+1+3+4+5+6+7+8+9+10+11;C03:0+1+3+4+5+6+7+8+9+10+11;C11:0+1+3+4+5+6+7+8+9+10+11 engine=smt chunks=tuples:0,1,9999;1,1,9999;2,1,9999;3,1,9999;4,1,9999;5,1,9999;6,1,9999;7,1,9999;8,1,9999;9,1,9999;10,1,9999;11,1,9999 quick=all timeout=3000 mem=4 bound="Date rounding to the unit given by the first parameter for every real date of the years given by the other two: the documented neighbour, DateOutOfRange iff it lies outside 0001-01-01..9999-12-31; for the century unit the years divisible by 100 are excluded here (c11_century_y00_*); Date::extract under its contract"
fn s11_date(unit: i64, ylo: i32, yhi: i32) {
    let y: i32 = kani::any();
    let m: u32 = kani::any();
    let d: u32 = kani::any();
    kani::assume(o_valid_ymd(y, m, d) && y >= ylo && y <= yhi);
    if unit == 0 {
        kani::assume(y % 100 != 0);
    }
    let x = Date::try_from_ymd(y, m, d).unwrap();
    let n = x.days();
    let wd = o_weekday(n) as i32;
    let week = |off: i32| -> i64 { if off >= 4 { n as i64 + (7 - off) as i64 } else { n as i64 - off as i64 } };
    let big = i64::MAX;
    let b: i64 = match unit {
        0 => {
            let c = y - (y - 1) % 100;
            if y - c + 1 >= 51 { if c + 100 > 9999 { big } else { o_daynum_t(c + 100, 1, 1) as i64 } } else { o_daynum_t(c, 1, 1) as i64 }
        }
        1 => if m >= 7 { if y == 9999 { big } else { o_daynum_t(y + 1, 1, 1) as i64 } } else { o_daynum_t(y, 1, 1) as i64 },
        2 => if m >= 7 { if y == 9999 { big } else { o_iso_start_t(y + 1) as i64 } } else { o_trunc_t(2, y, m, d, n) as i64 },
        3 => {
            let q1 = (m - 1) / 3 * 3 + 1;
            if m > q1 + 1 || (m == q1 + 1 && d >= 16) {
                if q1 == 10 { if y == 9999 { big } else { o_daynum_t(y + 1, 1, 1) as i64 } } else { o_daynum_t(y, q1 + 3, 1) as i64 }
            } else {
                o_daynum_t(y, q1, 1) as i64
            }
        }
        4 => if d >= 16 { if m == 12 { if y == 9999 { big } else { o_daynum_t(y + 1, 1, 1) as i64 } } else { o_daynum_t(y, m + 1, 1) as i64 } } else { o_daynum_t(y, m, 1) as i64 },
        5 => week((n - o_daynum_t(y, 1, 1)) % 7),
        6 => week((wd + 5) % 7),
        7 => week((d as i32 - 1) % 7),
        9 => week(wd - 1),
        _ => n as i64,
    };
    let r = match unit {
        0 => x.round_century(),
        1 => x.round_year(),
        2 => x.round_iso_year(),
        3 => x.round_quarter(),
        4 => x.round_month(),
        5 => x.round_week(),
        6 => x.round_iso_week(),
        7 => x.round_month_start_week(),
        8 => x.round_day(),
        9 => x.round_sunday_start_week(),
        10 => x.round_hour(),
        _ => x.round_minute(),
    };
    match r {
        Ok(v) => assert!(v.days() as i64 == b),
        Err(_) => assert!(b < DAY_MIN as i64 || b > DAY_MAX as i64),
    }
}

//@ unit s09_ts_add_months prop=C09,C17,C02,C03 engine=smt bound="every valid timestamp x every month offset: Timestamp::add/sub_interval_ym hands its own date part (floor split) and the (negated) interval to the date-level month arithmetic (havoc'd here, decided by s09_add_months / c09_date_add) and re-attaches the unchanged time of day; errors passed through"
fn s09_ts_add_months() {
    let u: i64 = kani::any();
    let k: i32 = kani::any();
    kani::assume(u >= TS_MIN && u <= TS_MAX && k >= -YM_MAX && k <= YM_MAX);
    // The solver's model fixes the timestamp and the offset, but the date-level arithmetic is an
    // uninterpreted function there: whether a wrong date part shows through the real month arithmetic
    // depends on where the month ends are.  The replay therefore confirms the counterexample on the
    // model's timestamp and on the same time of day over the neighbouring 40 days, with the model's
    // offset and with +-1 and 12 months.
    let n0 = u.div_euclid(USECS_DAY);
    let t = u.rem_euclid(USECS_DAY);
    let mut dn: i64 = -40;
    while dn <= 40 {
        let n = n0 + dn;
        dn += 1;
        if n < DAY_MIN as i64 || n > DAY_MAX as i64 {
            continue;
        }
        let d = mk_date(n as i32);
        let ts = mk_ts(n * USECS_DAY + t);
        for kk in [k, 1, -1, 12] {
            match (ts.add_interval_ym(mk_ym(kk)), d.add_interval_ym(mk_ym(kk))) {
                (Ok(a), Ok(b)) => assert!(a.usecs() == b.usecs() + t),
                (Err(_), Err(_)) => {}
                _ => assert!(false),
            }
            match (ts.sub_interval_ym(mk_ym(kk)), d.sub_interval_ym(mk_ym(kk))) {
                (Ok(a), Ok(b)) => assert!(a.usecs() == b.usecs() + t),
                (Err(_), Err(_)) => {}
                _ => assert!(false),
            }
        }
    }
}

//@ unit s17_cmp prop=C17,C03 engine=smt bound="every valid Date, Timestamp and Oracle-style date: == and partial_cmp between Date/Timestamp, OracleDate/Timestamp and OracleDate/Date in both argument orders equal the comparison of the converted microsecond counts"
fn s17_cmp() {
    let n: i32 = kani::any();
    let u: i64 = kani::any();
    let secs: i64 = kani::any();
    kani::assume(n >= DAY_MIN && n <= DAY_MAX && u >= TS_MIN && u <= TS_MAX && secs >= TS_MIN / 1_000_000 && secs <= TS_MAX / 1_000_000);
    let (d, ts, od) = (mk_date(n), mk_ts(u), mk_od(secs * 1_000_000));
    let (dv, ov) = (n as i64 * USECS_DAY, secs * 1_000_000);
    assert!((d == ts) == (dv == u) && (ts == d) == (dv == u) && d.partial_cmp(&ts) == Some(dv.cmp(&u)) && ts.partial_cmp(&d) == Some(u.cmp(&dv)));
    assert!((od == ts) == (ov == u) && (ts == od) == (ov == u) && od.partial_cmp(&ts) == Some(ov.cmp(&u)) && ts.partial_cmp(&od) == Some(u.cmp(&ov)));
    assert!((od == d) == (ov == dv) && (d == od) == (ov == dv) && od.partial_cmp(&d) == Some(ov.cmp(&dv)) && d.partial_cmp(&od) == Some(dv.cmp(&ov)));
}

//@ unit s17_ts_delegation prop=C17,C10,C11,C02,C03 engine=smt chunks=range:0:18 quick=all bound="every valid timestamp, operation = parameter (10 truncations century..Sunday week, 5 calendar roundings, 4 week roundings): the result is the Date operation applied to the timestamp's date part - the following day from 12:00 on for the week roundings - at midnight, errors passed through; the Date operations are uninterpreted functions of their arguments here (decided by s10_date/s11_date/c11_date)"
fn s17_ts_delegation(which: i64) {
    let u: i64 = kani::any();
    kani::assume(u >= TS_MIN && u <= TS_MAX);
    let ts = mk_ts(u);
    let n = u.div_euclid(USECS_DAY);
    let t = u.rem_euclid(USECS_DAY);
    let week_round = which >= 15;
    let n2 = if week_round && t >= USECS_DAY / 2 { n + 1 } else { n };
    let got = match which {
        0 => ts.trunc_century(),
        1 => ts.trunc_year(),
        2 => ts.trunc_iso_year(),
        3 => ts.trunc_quarter(),
        4 => ts.trunc_month(),
        5 => ts.trunc_week(),
        6 => ts.trunc_iso_week(),
        7 => ts.trunc_month_start_week(),
        8 => ts.trunc_day(),
        9 => ts.trunc_sunday_start_week(),
        10 => ts.round_century(),
        11 => ts.round_year(),
        12 => ts.round_iso_year(),
        13 => ts.round_quarter(),
        14 => ts.round_month(),
        15 => ts.round_week(),
        16 => ts.round_iso_week(),
        17 => ts.round_month_start_week(),
        _ => ts.round_sunday_start_week(),
    };
    if n2 > DAY_MAX as i64 {
        assert!(got.is_err());
        return;
    }
    let d = mk_date(n2 as i32);
    let exp = match which {
        0 => d.trunc_century(),
        1 => d.trunc_year(),
        2 => d.trunc_iso_year(),
        3 => d.trunc_quarter(),
        4 => d.trunc_month(),
        5 => d.trunc_week(),
        6 => d.trunc_iso_week(),
        7 => d.trunc_month_start_week(),
        8 => d.trunc_day(),
        9 => d.trunc_sunday_start_week(),
        10 => d.round_century(),
        11 => d.round_year(),
        12 => d.round_iso_year(),
        13 => d.round_quarter(),
        14 => d.round_month(),
        15 => d.round_week(),
        16 => d.round_iso_week(),
        17 => d.round_month_start_week(),
        _ => d.round_sunday_start_week(),
    };
    match (got, exp) {
        (Ok(a), Ok(b)) => assert!(a.usecs() == b.days() as i64 * USECS_DAY),
        (Err(_), Err(_)) => {}
        _ => assert!(false),
    }
}

// ---- constructor grids and linear arithmetic through the second engine ------------------------
//@ unit s01_accept prop=C01,C02,C03 engine=smt bound="every (i32 year, u32 month, u32 day): try_from_ymd / validate_ymd / is_valid accept exactly the real dates of years 1..=9999 with the documented error precedence; every i32 for try_from_days"
fn s01_accept() {
    let y: i32 = kani::any();
    let m: u32 = kani::any();
    let d: u32 = kani::any();
    let n: i32 = kani::any();
    let ok = o_valid_ymd(y, m, d);
    let r = Date::try_from_ymd(y, m, d);
    assert!(r.is_ok() == ok && Date::is_valid(y, m, d) == ok);
    if !ok {
        if y < 1 || y > 9999 {
            assert!(matches!(r, Err(Error::DateOutOfRange)));
        } else if m < 1 || m > 12 {
            assert!(matches!(r, Err(Error::InvalidMonth)));
        } else if d < 1 || d > 31 {
            assert!(matches!(r, Err(Error::InvalidDay)));
        } else {
            assert!(matches!(r, Err(Error::InvalidDate)));
        }
    }
    match Date::try_from_days(n) {
        Ok(x) => assert!(n >= DAY_MIN && n <= DAY_MAX && x.days() == n),
        Err(e) => assert!((n < DAY_MIN || n > DAY_MAX) && matches!(e, Error::DateOutOfRange)),
    }
}

//@ unit s07_time_ctor prop=C07,C02,C03 engine=smt bound="every (u32 hour, minute, second, microsecond) and every i64: Time::try_from_hms / is_valid / try_from_usecs accept exactly the valid tuples / counts, with the documented errors"
fn s07_time_ctor() {
    let h: u32 = kani::any();
    let mi: u32 = kani::any();
    let s: u32 = kani::any();
    let us: u32 = kani::any();
    let t: i64 = kani::any();
    let ok = h < 24 && mi < 60 && s < 60 && us < 1_000_000;
    match Time::try_from_hms(h, mi, s, us) {
        Ok(x) => assert!(ok && x.usecs() == h as i64 * 3_600_000_000 + mi as i64 * 60_000_000 + s as i64 * 1_000_000 + us as i64),
        Err(e) => {
            assert!(!ok);
            if h >= 24 {
                assert!(matches!(e, Error::TimeOutOfRange));
            } else if mi >= 60 {
                assert!(matches!(e, Error::InvalidMinute));
            } else if s >= 60 {
                assert!(matches!(e, Error::InvalidSecond));
            } else {
                assert!(matches!(e, Error::InvalidFraction));
            }
        }
    }
    assert!(Time::is_valid(h, mi, s, us) == ok);
    match Time::try_from_usecs(t) {
        Ok(x) => assert!(t >= 0 && t < USECS_DAY && x.usecs() == t),
        Err(e) => assert!((t < 0 || t >= USECS_DAY) && matches!(e, Error::TimeOutOfRange)),
    }
}

//@ unit s13_ctor prop=C13,C02,C03 engine=smt bound="every (u32 years, u32 months), every i32, every (u32 days, hours, minutes, seconds, microseconds), every i64: the interval constructors and validity predicates accept exactly the values inside the symmetric documented ranges, with the documented errors"
fn s13_ctor() {
    let yy: u32 = kani::any();
    let mm: u32 = kani::any();
    let months: i32 = kani::any();
    let d: u32 = kani::any();
    let h: u32 = kani::any();
    let mi: u32 = kani::any();
    let s: u32 = kani::any();
    let us: u32 = kani::any();
    let usecs: i64 = kani::any();
    let okym = mm < 12 && yy as i64 * 12 + mm as i64 <= YM_MAX as i64;
    match IntervalYM::try_from_ym(yy, mm) {
        Ok(x) => assert!(okym && x.months() as i64 == yy as i64 * 12 + mm as i64),
        Err(e) => {
            assert!(!okym);
            if yy > 178_000_000 || (yy == 178_000_000 && mm != 0) {
                assert!(matches!(e, Error::IntervalOutOfRange));
            } else {
                assert!(matches!(e, Error::InvalidMonth));
            }
        }
    }
    assert!(IntervalYM::is_valid_ym(yy, mm) == okym);
    assert!(IntervalYM::try_from_months(months).is_ok() == (months >= -YM_MAX && months <= YM_MAX));
    let total = d as i128 * USECS_DAY as i128 + h as i128 * 3_600_000_000 + mi as i128 * 60_000_000 + s as i128 * 1_000_000 + us as i128;
    let okdt = h < 24 && mi < 60 && s < 60 && us < 1_000_000 && total <= DT_MAX as i128;
    match IntervalDT::try_from_dhms(d, h, mi, s, us) {
        Ok(x) => assert!(okdt && x.usecs() as i128 == total),
        Err(e) => {
            assert!(!okdt);
            if d > 100_000_000 || (d == 100_000_000 && (h != 0 || mi != 0 || s != 0 || us != 0)) {
                assert!(matches!(e, Error::IntervalOutOfRange));
            } else if h >= 24 {
                assert!(matches!(e, Error::TimeOutOfRange));
            } else if mi >= 60 {
                assert!(matches!(e, Error::InvalidMinute));
            } else if s >= 60 {
                assert!(matches!(e, Error::InvalidSecond));
            } else {
                assert!(matches!(e, Error::InvalidFraction));
            }
        }
    }
    assert!(IntervalDT::is_valid(d, h, mi, s, us) == okdt);
    assert!(IntervalDT::try_from_usecs(usecs).is_ok() == (usecs >= -DT_MAX && usecs <= DT_MAX));
}

//@ unit s08_linear prop=C08,C02,C03 engine=smt bound="every valid date x every i32 day offset, every pair of dates, of year-month intervals, of day-time intervals, every day-time interval x time of day: add/sub equal exact integer arithmetic, Ok iff the exact result is inside the result type's range"
fn s08_linear() {
    let n: i32 = kani::any();
    let k: i32 = kani::any();
    let n2: i32 = kani::any();
    let a: i32 = kani::any();
    let b: i32 = kani::any();
    let p: i64 = kani::any();
    let q: i64 = kani::any();
    let t: i64 = kani::any();
    kani::assume(n >= DAY_MIN && n <= DAY_MAX && n2 >= DAY_MIN && n2 <= DAY_MAX && a >= -YM_MAX && a <= YM_MAX && b >= -YM_MAX && b <= YM_MAX);
    kani::assume(p >= -DT_MAX && p <= DT_MAX && q >= -DT_MAX && q <= DT_MAX && t >= 0 && t < USECS_DAY);
    let in_day = |x: i64| x >= DAY_MIN as i64 && x <= DAY_MAX as i64;
    match mk_date(n).add_days(k) {
        Ok(x) => assert!(in_day(n as i64 + k as i64) && x.days() as i64 == n as i64 + k as i64),
        Err(_) => assert!(!in_day(n as i64 + k as i64)),
    }
    match mk_date(n).sub_days(k) {
        Ok(x) => assert!(in_day(n as i64 - k as i64) && x.days() as i64 == n as i64 - k as i64),
        Err(_) => assert!(!in_day(n as i64 - k as i64)),
    }
    assert!(mk_date(n).sub_date(mk_date(n2)) == n - n2);
    let in_ym = |x: i64| x >= -(YM_MAX as i64) && x <= YM_MAX as i64;
    match mk_ym(a).add_interval_ym(mk_ym(b)) {
        Ok(x) => assert!(in_ym(a as i64 + b as i64) && x.months() as i64 == a as i64 + b as i64),
        Err(_) => assert!(!in_ym(a as i64 + b as i64)),
    }
    match mk_ym(a).sub_interval_ym(mk_ym(b)) {
        Ok(x) => assert!(in_ym(a as i64 - b as i64) && x.months() as i64 == a as i64 - b as i64),
        Err(_) => assert!(!in_ym(a as i64 - b as i64)),
    }
    let in_dt = |x: i128| x >= -(DT_MAX as i128) && x <= DT_MAX as i128;
    match mk_dt(p).add_interval_dt(mk_dt(q)) {
        Ok(x) => assert!(in_dt(p as i128 + q as i128) && x.usecs() as i128 == p as i128 + q as i128),
        Err(_) => assert!(!in_dt(p as i128 + q as i128)),
    }
    match mk_dt(p).sub_interval_dt(mk_dt(q)) {
        Ok(x) => assert!(in_dt(p as i128 - q as i128) && x.usecs() as i128 == p as i128 - q as i128),
        Err(_) => assert!(!in_dt(p as i128 - q as i128)),
    }
    match mk_dt(p).sub_time(mk_time(t)) {
        Ok(x) => assert!(in_dt(p as i128 - t as i128) && x.usecs() as i128 == p as i128 - t as i128),
        Err(_) => assert!(!in_dt(p as i128 - t as i128)),
    }
}

//@ unit s09_last_day prop=C09,C17,C02,C03 engine=smt bound="every real date (y, m, d) x every time of day: last_day_of_month of Date and Timestamp = the final day (28/29/30/31) of the value's own month, time of day unchanged; Date::extract under its contract"
fn s09_last_day() {
    let y: i32 = kani::any();
    let m: u32 = kani::any();
    let d: u32 = kani::any();
    let _n: i32 = kani::any();
    let t: i64 = kani::any();
    kani::assume(o_valid_ymd(y, m, d) && t >= 0 && t < USECS_DAY);
    let x = Date::try_from_ymd(y, m, d).unwrap();
    let last = Date::try_from_ymd(y, m, o_dim(y, m)).unwrap();
    assert!(x.last_day_of_month() == last);
    assert!(Timestamp::new(x, mk_time(t)).last_day_of_month() == Timestamp::new(last, mk_time(t)));
}

//@ unit s18_now prop=C18,C02,C03 engine=smt clock=1 bound="every current local instant of years 1..=9999 to the microsecond (seven symbolic clock fields; chrono's now()/naive_local() are opaque, its field accessors return the symbolic clock) and every time of day: Date::now, Timestamp::now, OracleDate::now (microseconds dropped) and TryFrom<Time> for Timestamp / OracleDate report that date and time"
fn s18_now() {
    // the first seven inputs are the clock (the native replay sets the shimmed system clock from them)
    let cy: i32 = kani::any();
    let cm: u32 = kani::any();
    let cd: u32 = kani::any();
    let ch: u32 = kani::any();
    let cmi: u32 = kani::any();
    let cs: u32 = kani::any();
    let cus: u32 = kani::any();
    let t: i64 = kani::any();
    kani::assume(o_valid_ymd(cy, cm, cd) && ch < 24 && cmi < 60 && cs < 60 && cus < 1_000_000 && t >= 0 && t < USECS_DAY);
    let n = Date::try_from_ymd(cy, cm, cd).unwrap().days() as i64;
    let tod = ch as i64 * 3_600_000_000 + cmi as i64 * 60_000_000 + cs as i64 * 1_000_000;
    assert!(Date::now().unwrap().days() as i64 == n);
    assert!(Timestamp::now().unwrap().usecs() == n * USECS_DAY + tod + cus as i64);
    assert!(OracleDate::now().unwrap().usecs() == n * USECS_DAY + tod);
    assert!(Timestamp::try_from(mk_time(t)).unwrap().usecs() == n * USECS_DAY + t);
    assert!(OracleDate::try_from(mk_time(t)).unwrap().usecs() == n * USECS_DAY + t - t % 1_000_000);
}

//@ unit s16_sub_date prop=C16,C02,C03 engine=smt bound="every pair of Oracle-style dates: sub_date = the exact microsecond distance (integer subtraction, no overflow) divided by 86400e6 in f64"
fn s16_sub_date() {
    let a: i64 = kani::any();
    let b: i64 = kani::any();
    kani::assume(a >= TS_MIN / 1_000_000 && a <= TS_MAX / 1_000_000 && b >= TS_MIN / 1_000_000 && b <= TS_MAX / 1_000_000);
    let r = mk_od(a * 1_000_000).sub_date(mk_od(b * 1_000_000));
    assert!(r == ((a - b) * 1_000_000) as f64 / 86_400_000_000.0);
}
