//@ attach src/lib.rs
//! C09 (adding months, last day of month), C10 (truncation), C11 (rounding) on Date, Timestamp and
//! OracleDate.  Dates are drawn as real (y, m, d) triples under the YMD-ghost contract, times of
//! day are fully symbolic and the 64-bit split of a timestamp is replaced by its contract
//! (DESIGN.md 2.3); both contracts are discharged by the C01 / C07 obligations run alongside.
#![allow(dead_code, unused_imports)]
use super::*;
#[cfg(not(kani))]
use crate::verif_support::kani;
use crate::verif_support::*;
use crate::{Date, DateTime, Error, IntervalYM, OracleDate, Round, Time, Timestamp, Trunc};

const EPOCH_J: i32 = 2_440_588;

/// Day number (days since 1970-01-01) of a date given as a triple.  The crate's own forward
/// conversion is used as the enumerator: C01 (base + step + inverse, run alongside as contract
/// obligations) ties it to the calendar successor relation, so it is a proved enumerator and the
/// comparison with the implementation's result is structural rather than a second formula.
fn o_daynum(y: i32, m: u32, d: u32) -> i32 {
    crate::common::date2julian(y, m, d) - EPOCH_J
}

// ------------------------------------------------------------------------------------- C09

/// The month `k` months away from `(y, m)`: the unique `(y2, m2)` with `1 <= m2 <= 12` and
/// `12*y2 + m2 == 12*y + m + k`, drawn and constrained (no division).
fn o_target_month(y: i32, m: u32, k: i32) -> (i64, i64) {
    let y2: i64 = kani::any();
    let m2: i64 = kani::any();
    kani::assume(m2 >= 1 && m2 <= 12);
    kani::assume(y2 >= -200_000_000 && y2 <= 200_000_000);
    kani::assume(12 * y2 + m2 == 12 * y as i64 + m as i64 + k as i64);
    (y2, m2)
}

fn c09_expect(y: i32, m: u32, d: u32, k: i32) -> Option<i32> {
    let (y2, m2) = o_target_month(y, m, k);
    if y2 >= 1 && y2 <= 9999 && d <= o_dim(y2 as i32, m2 as u32) {
        Some(o_daynum(y2 as i32, m2 as u32, d))
    } else {
        None
    }
}

//@ unit c09_date_add prop=C09,C02,C03 chunks=tuples:2135900000,2136000000;-2136000000,-2135900000;-480,480;481,130000;-130000,-481;130001,2135899999;-2135899999,-130001 quick=first:2 mem=4 timeout=1500/3600 stubs=crate::common::julian2date=>crate::verif_support::ghost_julian2date bound="every real date 0001-01-01..9999-12-31 (as a triple) x every month offset k of the sub-range: Date::add_interval_ym / sub_interval_ym"
fn c09_date_add(klo: i32, khi: i32) {
    let k = any_i32_in(klo, khi);
    let (date, (y, m, d)) = ghost_date(1, 9999);
    let exp = c09_expect(y, m, d, k);
    let r = date.add_interval_ym(mk_ym(k));
    match exp {
        Some(n) => match r {
            Ok(ts) => {
                assert!(ts.usecs() == n as i64 * USECS_DAY);
            }
            Err(_) => assert!(false),
        },
        None => {
            assert!(r.is_err());
        }
    }
    // vacuity witnesses (the range-limit sub-ranges can only fail: every target year is out of range)
    let far = klo > 130_000 || khi < -130_000;
    kani::cover!(exp.is_some() || far);
    kani::cover!(exp.is_none() && d == 31);
    kani::cover!((exp.is_some() && d == 29 && k % 12 != 0) || far);
    // subtracting is adding the negation
    let s = date.sub_interval_ym(mk_ym(-k));
    match (r, s) {
        (Ok(a), Ok(b)) => assert!(a == b),
        (Err(_), Err(_)) => {}
        _ => assert!(false),
    }
}

//@ unit c09_ts_add prop=C09,C02,C03,C17 chunks=tuples:2135900000,2136000000;-2136000000,-2135900000;-480,480;481,130000;-130000,-481;130001,2135899999;-2135899999,-130001 quick=first:2 mem=5 timeout=1500/3600 stubs=crate::common::julian2date=>crate::verif_support::ghost_julian2date,crate::timestamp::Timestamp::extract=>crate::verif_support::stub_ts_extract,crate::timestamp::Timestamp::date=>crate::verif_support::stub_ts_date,crate::timestamp::Timestamp::time=>crate::verif_support::stub_ts_time bound="every real date x every microsecond of the day x every month offset of the sub-range: Timestamp::add/sub_interval_ym keep day and time (OracleDate: s17_od_delegation)"
fn c09_ts_add(klo: i32, khi: i32) {
    let k = any_i32_in(klo, khi);
    let t = any_tod();
    let (date, (y, m, d)) = ghost_date(1, 9999);
    let exp = c09_expect(y, m, d, k);
    let ts = ghost_ts(0, date, t);
    let r = ts.add_interval_ym(mk_ym(k));
    match exp {
        Some(n) => match r {
            Ok(v) => {
                assert!(v.usecs() == n as i64 * USECS_DAY + t);
            }
            Err(_) => assert!(false),
        },
        None => {
            assert!(r.is_err());
        }
    }
    let far = klo > 130_000 || khi < -130_000;
    kani::cover!((exp.is_some() && t > 0) || far);
    kani::cover!(exp.is_none() && d >= 29);
    match (r, ts.sub_interval_ym(mk_ym(-k))) {
        (Ok(a), Ok(b)) => assert!(a == b),
        (Err(_), Err(_)) => {}
        _ => assert!(false),
    }
}

//@ unit c09_last_day prop=C09 tier=thorough mem=4 timeout=3600 stubs=crate::common::julian2date=>crate::verif_support::ghost_julian2date,crate::timestamp::Timestamp::extract=>crate::verif_support::stub_ts_extract,crate::timestamp::Timestamp::date=>crate::verif_support::stub_ts_date,crate::timestamp::Timestamp::time=>crate::verif_support::stub_ts_time bound="every real date x every microsecond of the day: last_day_of_month of Date and Timestamp (OracleDate: s17_od_delegation)"
fn c09_last_day() {
    let t = any_tod();
    let (date, (y, m, d)) = ghost_date(1, 9999);
    let last = o_daynum(y, m, o_dim(y, m));
    let r = date.last_day_of_month();
    assert!(r.days() == last);
    assert!(r.days() >= date.days() && r.days() - date.days() <= 30);
    let ts = ghost_ts(0, date, t);
    assert!(ts.last_day_of_month().usecs() == last as i64 * USECS_DAY + t);
    kani::cover!(m == 2 && d == 29);
    kani::cover!(m == 2 && o_dim(y, m) == 28 && d == 1);
    kani::cover!(d == 31);
}

// ------------------------------------------------------------------------------------- C10

#[derive(Copy, Clone, PartialEq)]
enum U {
    Century = 0,
    Year = 1,
    IsoYear = 2,
    Quarter = 3,
    Month = 4,
    Week = 5,
    IsoWeek = 6,
    MonthWeek = 7,
    Day = 8,
    SundayWeek = 9,
    Hour = 10,
    Minute = 11,
}

fn unit_of(u: u8) -> U {
    match u {
        0 => U::Century,
        1 => U::Year,
        2 => U::IsoYear,
        3 => U::Quarter,
        4 => U::Month,
        5 => U::Week,
        6 => U::IsoWeek,
        7 => U::MonthWeek,
        8 => U::Day,
        9 => U::SundayWeek,
        10 => U::Hour,
        _ => U::Minute,
    }
}

/// Monday that starts ISO year `y`: the Monday on or before 4 January.
fn o_iso_start(y: i32) -> i32 {
    let j4 = o_daynum(y, 1, 4);
    let wd = o_weekday(j4); // Sunday = 1
    j4 - ((wd as i32 + 5) % 7)
}

/// Start of the unit containing day `n` = (y, m, d): the greatest unit boundary not after it,
/// as a day number (may lie before 0001-01-01 for the week units).
fn o_trunc_day(u: U, n: i32, y: i32, m: u32, d: u32) -> i32 {
    let wd = o_weekday(n) as i32;
    match u {
        U::Century => o_daynum(y - (y - 1) % 100, 1, 1),
        U::Year => o_daynum(y, 1, 1),
        U::IsoYear => {
            let s = o_iso_start(y);
            if n < s {
                o_iso_start(y - 1)
            } else {
                let s1 = o_iso_start(y + 1);
                if n >= s1 {
                    s1
                } else {
                    s
                }
            }
        }
        U::Quarter => o_daynum(y, (m - 1) / 3 * 3 + 1, 1),
        U::Month => o_daynum(y, m, 1),
        U::Week => n - ((n - o_daynum(y, 1, 1)) % 7), // 7-day blocks from 1 January
        U::IsoWeek => n - ((wd + 5) % 7),
        U::MonthWeek => n - ((d as i32 - 1) % 7),
        U::SundayWeek => n - (wd - 1),
        U::Day | U::Hour | U::Minute => n,
    }
}

fn call_trunc_date(u: U, x: Date) -> crate::error::Result<Date> {
    match u {
        U::Century => x.trunc_century(),
        U::Year => x.trunc_year(),
        U::IsoYear => x.trunc_iso_year(),
        U::Quarter => x.trunc_quarter(),
        U::Month => x.trunc_month(),
        U::Week => x.trunc_week(),
        U::IsoWeek => x.trunc_iso_week(),
        U::MonthWeek => x.trunc_month_start_week(),
        U::Day => x.trunc_day(),
        U::SundayWeek => x.trunc_sunday_start_week(),
        U::Hour => x.trunc_hour(),
        U::Minute => x.trunc_minute(),
    }
}
fn call_trunc_ts(u: U, x: Timestamp) -> crate::error::Result<Timestamp> {
    match u {
        U::Century => x.trunc_century(),
        U::Year => x.trunc_year(),
        U::IsoYear => x.trunc_iso_year(),
        U::Quarter => x.trunc_quarter(),
        U::Month => x.trunc_month(),
        U::Week => x.trunc_week(),
        U::IsoWeek => x.trunc_iso_week(),
        U::MonthWeek => x.trunc_month_start_week(),
        U::Day => x.trunc_day(),
        U::SundayWeek => x.trunc_sunday_start_week(),
        U::Hour => x.trunc_hour(),
        U::Minute => x.trunc_minute(),
    }
}
fn call_trunc_od(u: U, x: OracleDate) -> crate::error::Result<OracleDate> {
    match u {
        U::Century => x.trunc_century(),
        U::Year => x.trunc_year(),
        U::IsoYear => x.trunc_iso_year(),
        U::Quarter => x.trunc_quarter(),
        U::Month => x.trunc_month(),
        U::Week => x.trunc_week(),
        U::IsoWeek => x.trunc_iso_week(),
        U::MonthWeek => x.trunc_month_start_week(),
        U::Day => x.trunc_day(),
        U::SundayWeek => x.trunc_sunday_start_week(),
        U::Hour => x.trunc_hour(),
        U::Minute => x.trunc_minute(),
    }
}

/// Longest possible distance (days) from a value back to the start of its unit.
fn o_period(u: U) -> i32 {
    match u {
        U::Century => 36525,
        U::Year => 366,
        U::IsoYear => 371,
        U::Quarter => 92,
        U::Month => 31,
        U::Week | U::IsoWeek | U::MonthWeek | U::SundayWeek => 7,
        _ => 1,
    }
}

//@ unit c10_date prop=C10,C02,C03 chunks=ints:2,0,4,1,3,6,7,8,9,10,11,5 mem=4 timeout=2000/3600 stubs=crate::common::julian2date=>crate::verif_support::ghost_julian2date quick=first:3 bound="every real date 0001-01-01..9999-12-31 (as a triple) for the truncation unit given by the parameter (0 century, 1 year, 2 ISO year, 3 quarter, 4 month, 5 week, 6 ISO week, 7 month-anchored week, 8 day, 9 Sunday week, 10 hour, 11 minute) on Date"
fn c10_date(unit: u8) {
    let u = unit_of(unit);
    let (x, (y, m, d)) = ghost_date(1, 9999);
    let n = x.days();
    let b = o_trunc_day(u, n, y, m, d);
    let r = call_trunc_date(u, x);
    if b >= DAY_MIN {
        match r {
            Ok(v) => {
                assert!(v.days() == b);
                assert!(v.days() <= n && n - v.days() < o_period(u));
                kani::cover!(v.days() == n);
                kani::cover!(v.days() < n || o_period(u) == 1);
            }
            Err(_) => assert!(false),
        }
    } else {
        assert!(matches!(r, Err(Error::DateOutOfRange)));
    }
}

//@ unit c10_date_mono prop=C10 tier=thorough chunks=range:0:11 mem=4 timeout=3600 stubs=crate::common::julian2date=>crate::verif_support::ghost_julian2date bound="every pair of consecutive real dates (x, x+1), truncation unit = parameter: trunc(x) <= trunc(x+1) (monotone)"
fn c10_date_mono(unit: u8) {
    let u = unit_of(unit);
    let (x, _) = ghost_date(1, 9999);
    let n = x.days();
    kani::assume(n < DAY_MAX);
    match (call_trunc_date(u, x), call_trunc_date(u, mk_date(n + 1))) {
        (Ok(a), Ok(c)) => {
            assert!(a <= c);
            kani::cover!(a < c);
        }
        _ => {}
    }
}

//@ unit c10_date_mustfail prop=C10 tier=thorough expect=fail stubs=crate::common::julian2date=>crate::verif_support::ghost_julian2date bound="vacuity twin of c10_date (unit 4): the final assert(false) must be reachable"
fn c10_date_mustfail() {
    let (x, _) = ghost_date(1, 9999);
    let r = x.trunc_month();
    assert!(r.is_ok());
    assert!(false);
}


//@ unit c10_ts prop=C10,C02,C03,C17 chunks=ints:8,0,1,2,3,4,5,6,7,9,10,11 quick=first:1 mem=5 timeout=1500/3600 stubs=crate::common::julian2date=>crate::verif_support::ghost_julian2date,crate::timestamp::Timestamp::extract=>crate::verif_support::stub_ts_extract,crate::timestamp::Timestamp::date=>crate::verif_support::stub_ts_date,crate::timestamp::Timestamp::time=>crate::verif_support::stub_ts_time bound="every real date x every microsecond of the day, truncation unit = parameter, on Timestamp (OracleDate: s17_od_delegation); result compared with the Date-level boundary at midnight (C17) or the top of the hour/minute"
fn c10_ts(unit: u8) {
    let u = unit_of(unit);
    let t = any_tod();
    let (x, (y, m, d)) = ghost_date(1, 9999);
    let n = x.days();
    let ts = ghost_ts(0, x, t);
    let b = o_trunc_day(u, n, y, m, d);
    let tod = match u {
        U::Hour => t - t % 3_600_000_000,
        U::Minute => t - t % 60_000_000,
        _ => 0,
    };
    let r = call_trunc_ts(u, ts);
    if b >= DAY_MIN {
        match r {
            Ok(v) => {
                assert!(v.usecs() == b as i64 * USECS_DAY + tod);
                assert!(v <= ts);
                // idempotent on a boundary: a value already there maps to itself
                kani::cover!(v == ts);
                kani::cover!(v < ts);
            }
            Err(_) => assert!(false),
        }
    } else {
        assert!(matches!(r, Err(Error::DateOutOfRange)));
    }
}

// ------------------------------------------------------------------------------------- C11

/// Documented rounding on a *date* `n` = (y, m, d): returns the chosen boundary as a day number
/// (possibly after 9999-12-31, which means the operation must fail).  `y00` tells how a year that
/// is a multiple of 100 (the last year of its century) is treated: see `known_findings.json`.
fn o_round_day(u: U, n: i32, y: i32, m: u32, d: u32, y00_rounds_up: bool) -> i64 {
    let wd = o_weekday(n) as i32;
    match u {
        U::Century => {
            let c = y - (y - 1) % 100; // first year of the century
            let pos = y - c + 1; // 1..=100
            let up = if pos == 100 { y00_rounds_up } else { pos >= 51 };
            if up {
                if c + 100 > 9999 {
                    i64::MAX
                } else {
                    o_daynum(c + 100, 1, 1) as i64
                }
            } else {
                o_daynum(c, 1, 1) as i64
            }
        }
        U::Year => {
            if m >= 7 {
                if y == 9999 {
                    i64::MAX
                } else {
                    o_daynum(y + 1, 1, 1) as i64
                }
            } else {
                o_daynum(y, 1, 1) as i64
            }
        }
        U::IsoYear => {
            if m >= 7 {
                if y == 9999 {
                    i64::MAX
                } else {
                    o_iso_start(y + 1) as i64
                }
            } else {
                o_trunc_day(U::IsoYear, n, y, m, d) as i64
            }
        }
        U::Quarter => {
            let q1 = (m - 1) / 3 * 3 + 1; // first month of the quarter
            let up = m > q1 + 1 || (m == q1 + 1 && d >= 16);
            if up {
                if q1 == 10 {
                    if y == 9999 {
                        i64::MAX
                    } else {
                        o_daynum(y + 1, 1, 1) as i64
                    }
                } else {
                    o_daynum(y, q1 + 3, 1) as i64
                }
            } else {
                o_daynum(y, q1, 1) as i64
            }
        }
        U::Month => {
            if d >= 16 {
                if m == 12 {
                    if y == 9999 {
                        i64::MAX
                    } else {
                        o_daynum(y + 1, 1, 1) as i64
                    }
                } else {
                    o_daynum(y, m + 1, 1) as i64
                }
            } else {
                o_daynum(y, m, 1) as i64
            }
        }
        U::Week => o_round_week(n, (n - o_daynum(y, 1, 1)) % 7),
        U::IsoWeek => o_round_week(n, (wd + 5) % 7),
        U::MonthWeek => o_round_week(n, (d as i32 - 1) % 7),
        U::SundayWeek => o_round_week(n, wd - 1),
        U::Day | U::Hour | U::Minute => n as i64,
    }
}

/// `off` = days since the start of the 7-day block: the fifth day (off 4) rounds up.
fn o_round_week(n: i32, off: i32) -> i64 {
    if off >= 4 {
        n as i64 + (7 - off) as i64
    } else {
        n as i64 - off as i64
    }
}

fn call_round_date(u: U, x: Date) -> crate::error::Result<Date> {
    match u {
        U::Century => x.round_century(),
        U::Year => x.round_year(),
        U::IsoYear => x.round_iso_year(),
        U::Quarter => x.round_quarter(),
        U::Month => x.round_month(),
        U::Week => x.round_week(),
        U::IsoWeek => x.round_iso_week(),
        U::MonthWeek => x.round_month_start_week(),
        U::Day => x.round_day(),
        U::SundayWeek => x.round_sunday_start_week(),
        U::Hour => x.round_hour(),
        U::Minute => x.round_minute(),
    }
}
fn call_round_ts(u: U, x: Timestamp) -> crate::error::Result<Timestamp> {
    match u {
        U::Century => x.round_century(),
        U::Year => x.round_year(),
        U::IsoYear => x.round_iso_year(),
        U::Quarter => x.round_quarter(),
        U::Month => x.round_month(),
        U::Week => x.round_week(),
        U::IsoWeek => x.round_iso_week(),
        U::MonthWeek => x.round_month_start_week(),
        U::Day => x.round_day(),
        U::SundayWeek => x.round_sunday_start_week(),
        U::Hour => x.round_hour(),
        U::Minute => x.round_minute(),
    }
}
fn call_round_od(u: U, x: OracleDate) -> crate::error::Result<OracleDate> {
    match u {
        U::Century => x.round_century(),
        U::Year => x.round_year(),
        U::IsoYear => x.round_iso_year(),
        U::Quarter => x.round_quarter(),
        U::Month => x.round_month(),
        U::Week => x.round_week(),
        U::IsoWeek => x.round_iso_week(),
        U::MonthWeek => x.round_month_start_week(),
        U::Day => x.round_day(),
        U::SundayWeek => x.round_sunday_start_week(),
        U::Hour => x.round_hour(),
        U::Minute => x.round_minute(),
    }
}

fn c11_date_body(u: U, y00_rounds_up: bool, only_y00: bool) {
    let covers = !only_y00;
    let (x, (y, m, d)) = ghost_date(1, 9999);
    if u == U::Century {
        kani::assume((y % 100 == 0) == only_y00);
    }
    let n = x.days();
    let b = o_round_day(u, n, y, m, d, y00_rounds_up);
    let r = call_round_date(u, x);
    // the chosen boundary must exist: a week unit of 0001-01-01..03 rounds down to a day before
    // the minimum date, which is an error just as a boundary after the maximum is
    if b >= DAY_MIN as i64 && b <= DAY_MAX as i64 {
        match r {
            Ok(v) => {
                assert!(v.days() as i64 == b);
                // either the truncation or the next boundary after it
                let tb = o_trunc_day(u, n, y, m, d);
                assert!(v.days() == tb || v.days() > n);
                kani::cover!(!covers || v.days() > n || o_period(u) == 1);
                kani::cover!(v.days() <= n);
            }
            Err(_) => assert!(false),
        }
    } else {
        assert!(matches!(r, Err(Error::DateOutOfRange)));
    }
    // a failing rounding exists for every unit that can move forward (not for day/hour/minute, nor
    // for the years-divisible-by-100 units whose last year 9900 still has a neighbour)
    kani::cover!(!covers || r.is_err() || o_period(u) == 1 || u == U::Week || u == U::MonthWeek);
}

//@ unit c11_date_mono prop=C11 tier=thorough chunks=ints:0,1,3,4,5,6,7,8,9,10,11 mem=4 timeout=3600 stubs=crate::common::julian2date=>crate::verif_support::ghost_julian2date bound="every pair of consecutive real dates (x, x+1), rounding unit = parameter (all but the ISO year): round(x) <= round(x+1)"
fn c11_date_mono(unit: u8) {
    let u = unit_of(unit);
    let (x, _) = ghost_date(1, 9999);
    let n = x.days();
    kani::assume(n < DAY_MAX);
    match (call_round_date(u, x), call_round_date(u, mk_date(n + 1))) {
        (Ok(a), Ok(c)) => {
            assert!(a <= c);
            kani::cover!(a < c);
        }
        _ => {}
    }
}

//@ unit c11_date prop=C11,C02,C03 chunks=ints:0,5,1,2,3,4,6,7,8,9,10,11 quick=first:1 mem=4 timeout=1500/3600 stubs=crate::common::julian2date=>crate::verif_support::ghost_julian2date bound="every real date 0001-01-01..9999-12-31 (as a triple), rounding unit = parameter, on Date; for the century unit the years divisible by 100 are covered by c11_century_y00_*"
fn c11_date(unit: u8) {
    c11_date_body(unit_of(unit), true, false);
}

//@ unit c11_century_y00_rule prop=C11 mem=4 timeout=1500 stubs=crate::common::julian2date=>crate::verif_support::ghost_julian2date bound="every date of a year divisible by 100 (the 100th year of its century): the stated rule (past the midpoint -> next century)"
fn c11_century_y00_rule() {
    c11_date_body(U::Century, true, true);
}

//@ unit c11_century_y00_pinned prop=C11 mem=4 timeout=1500 stubs=crate::common::julian2date=>crate::verif_support::ghost_julian2date bound="every date of a year divisible by 100: behaviour pinned by the repository's own test (rounds down to the first year of its century); any other behaviour in this region is a new violation"
fn c11_century_y00_pinned() {
    c11_date_body(U::Century, false, true);
}

//@ unit c11_ts prop=C11,C02,C03,C17 chunks=ints:8,0,1,2,3,4,5,6,7,9,10,11 quick=first:1 mem=6 timeout=1800/3600 stubs=crate::common::julian2date=>crate::verif_support::ghost_julian2date,crate::timestamp::Timestamp::extract=>crate::verif_support::stub_ts_extract,crate::timestamp::Timestamp::date=>crate::verif_support::stub_ts_date,crate::timestamp::Timestamp::time=>crate::verif_support::stub_ts_time bound="every real date x every microsecond of the day, rounding unit = parameter, on Timestamp (OracleDate: s17_od_delegation); years divisible by 100 excluded for the century unit (see c11_century_y00_*)"
fn c11_ts(unit: u8) {
    let u = unit_of(unit);
    let t = any_tod();
    let (x, (y, m, d)) = ghost_date(1, 9999);
    if u == U::Century {
        kani::assume(y % 100 != 0);
    }
    let n = x.days();
    let ts = ghost_ts(0, x, t);
    // expected instant in microseconds (i128: may exceed the range)
    let exp = c11_ts_expect(u, n, y, m, d, t);
    let r = call_round_ts(u, ts);
    match exp {
        Some(e) => match r {
            Ok(v) => {
                assert!(v.usecs() == e);
                kani::cover!(v > ts);
                kani::cover!(v <= ts);
            }
            Err(_) => assert!(false),
        },
        None => {
            assert!(matches!(r, Err(Error::DateOutOfRange)));
            kani::cover!(true);
        }
    }
}

/// Expected rounding of the timestamp (date n = (y,m,d), time of day t): calendar units ignore
/// the time of day except the week units and the day, where noon moves to the next day.
fn c11_ts_expect(u: U, n: i32, y: i32, m: u32, d: u32, t: i64) -> Option<i64> {
    let noon = t >= 43_200_000_000;
    let day: i64 = match u {
        U::Century | U::Year | U::IsoYear | U::Quarter | U::Month => o_round_day(u, n, y, m, d, true),
        U::Week | U::IsoWeek | U::MonthWeek | U::SundayWeek => {
            if noon {
                if n == DAY_MAX {
                    i64::MAX
                } else {
                    let (y1, m1, d1) = o_succ(y, m, d);
                    o_round_day(u, n + 1, y1, m1, d1, true)
                }
            } else {
                o_round_day(u, n, y, m, d, true)
            }
        }
        U::Day => {
            if noon {
                n as i64 + 1
            } else {
                n as i64
            }
        }
        U::Hour | U::Minute => n as i64,
    };
    if day > DAY_MAX as i64 + 1 || day < DAY_MIN as i64 {
        return None;
    }
    let tod = match u {
        U::Hour => {
            let h = t / 3_600_000_000;
            let rem = t % 3_600_000_000;
            (if rem >= 1_800_000_000 { h + 1 } else { h }) * 3_600_000_000
        }
        U::Minute => {
            let mi = t / 60_000_000;
            let rem = t % 60_000_000;
            (if rem >= 30_000_000 { mi + 1 } else { mi }) * 60_000_000
        }
        _ => 0,
    };
    let e = day * USECS_DAY + tod;
    if e > TS_MAX {
        None
    } else {
        Some(e)
    }
}
