//! Shared support for every harness: (1) a native stand-in for the `kani` API so that the very
//! same harness bodies can be replayed against an ordinary build of the crate, and (2) the
//! reference models (oracles), written in the vocabulary of the property statements and
//! independently of the implementation's algorithms.
//!
//! Attached to the scratch copy's `lib.rs` as `mod verif_support` under
//! `cfg(any(kani, verif_replay))`.  Nothing here is compiled into the crate otherwise.
#![allow(dead_code, unused_macros, unused_imports)]

// ---------------------------------------------------------------------------------------------
// Native replay shim for the kani API (only when *not* compiled by kani-compiler)
// ---------------------------------------------------------------------------------------------
#[cfg(not(kani))]
pub mod kani {
    use std::cell::RefCell;
    use std::collections::VecDeque;
    use std::convert::TryInto;

    thread_local! {
        static STREAM: RefCell<VecDeque<u8>> = RefCell::new(VecDeque::new());
        static DRAWN: RefCell<usize> = RefCell::new(0);
    }

    /// The replay input is the concatenation, in draw order, of the little-endian bytes of
    /// every `kani::any()` value in the solver's counterexample.
    pub fn load(stream: Vec<u8>) {
        STREAM.with(|q| *q.borrow_mut() = stream.into_iter().collect());
    }

    pub fn drawn() -> usize {
        DRAWN.with(|d| *d.borrow())
    }

    fn next_bytes(n: usize) -> Vec<u8> {
        DRAWN.with(|d| *d.borrow_mut() += 1);
        let mut v = Vec::with_capacity(n);
        STREAM.with(|q| {
            let mut q = q.borrow_mut();
            for _ in 0..n {
                v.push(q.pop_front().unwrap_or(0));
            }
        });
        v
    }

    pub trait Arbitrary: Sized {
        fn any() -> Self;
    }

    macro_rules! arb_int {
        ($($t:ty),*) => {$(
            impl Arbitrary for $t {
                fn any() -> Self {
                    let b = next_bytes(std::mem::size_of::<$t>());
                    let mut a = [0u8; std::mem::size_of::<$t>()];
                    a.copy_from_slice(&b);
                    <$t>::from_le_bytes(a)
                }
            }
        )*};
    }
    arb_int!(u8, i8, u16, i16, u32, i32, u64, i64, u128, i128, usize, isize);

    impl Arbitrary for f64 {
        fn any() -> Self {
            f64::from_bits(u64::any())
        }
    }
    impl Arbitrary for f32 {
        fn any() -> Self {
            f32::from_bits(u32::any())
        }
    }
    impl Arbitrary for bool {
        fn any() -> Self {
            // kani: `let byte = u8::any(); assume(byte < 2); byte == 1`
            let b = u8::any();
            assume(b < 2);
            b == 1
        }
    }
    impl<T: Arbitrary, const N: usize> Arbitrary for [T; N] {
        fn any() -> Self {
            // kani draws arrays element by element, in index order
            let mut v: Vec<T> = Vec::with_capacity(N);
            for _ in 0..N {
                v.push(T::any());
            }
            match v.try_into() {
                Ok(a) => a,
                Err(_) => unreachable!(),
            }
        }
    }

    pub fn any<T: Arbitrary>() -> T {
        T::any()
    }

    /// A failed assumption means the solver's assignment is *not* a counterexample of the
    /// harness as natively executed: exit with a distinguished code.
    pub fn assume(cond: bool) {
        if !cond {
            eprintln!("VERIF-REPLAY: assumption failed (not a counterexample)");
            std::process::exit(77);
        }
    }

    macro_rules! cover_impl {
        ($($t:tt)*) => {{}};
    }
    pub(crate) use cover_impl as cover;
}

// ---------------------------------------------------------------------------------------------
// Calendar oracle - the proleptic Gregorian rules as the property statements put them
// ---------------------------------------------------------------------------------------------

/// Leap years every 4 years except century years not divisible by 400.
pub fn o_leap(y: i32) -> bool {
    if y % 400 == 0 {
        true
    } else if y % 100 == 0 {
        false
    } else {
        y % 4 == 0
    }
}

/// 28/29/30/31-day months.
pub fn o_dim(y: i32, m: u32) -> u32 {
    match m {
        1 | 3 | 5 | 7 | 8 | 10 | 12 => 31,
        4 | 6 | 9 | 11 => 30,
        _ => {
            if o_leap(y) {
                29
            } else {
                28
            }
        }
    }
}

/// A real date in years 1..=9999.
pub fn o_valid_ymd(y: i32, m: u32, d: u32) -> bool {
    y >= 1 && y <= 9999 && m >= 1 && m <= 12 && d >= 1 && d <= o_dim(y, m)
}

/// The calendar date following `(y, m, d)`.
pub fn o_succ(y: i32, m: u32, d: u32) -> (i32, u32, u32) {
    if d < o_dim(y, m) {
        (y, m, d + 1)
    } else if m < 12 {
        (y, m + 1, 1)
    } else {
        (y + 1, 1, 1)
    }
}

/// The calendar date preceding `(y, m, d)`.
pub fn o_pred(y: i32, m: u32, d: u32) -> (i32, u32, u32) {
    if d > 1 {
        (y, m, d - 1)
    } else if m > 1 {
        (y, m - 1, o_dim(y, m - 1))
    } else {
        (y - 1, 12, 31)
    }
}

/// Day of the year (1 Jan = 1): days in the months before `m` (loop-free so that no unwinding
/// bound is needed) plus `d`.
pub fn o_doy(y: i32, m: u32, d: u32) -> u32 {
    let feb = if o_leap(y) { 29 } else { 28 };
    let before = match m {
        1 => 0,
        2 => 31,
        3 => 31 + feb,
        4 => 62 + feb,
        5 => 92 + feb,
        6 => 123 + feb,
        7 => 153 + feb,
        8 => 184 + feb,
        9 => 215 + feb,
        10 => 245 + feb,
        11 => 276 + feb,
        _ => 306 + feb,
    };
    before + d
}

/// Lexicographic order on triples.
pub fn o_lt(a: (i32, u32, u32), b: (i32, u32, u32)) -> bool {
    a.0 < b.0 || (a.0 == b.0 && (a.1 < b.1 || (a.1 == b.1 && a.2 < b.2)))
}

pub const DAY_MIN: i32 = -719_162; // 0001-01-01
pub const DAY_MAX: i32 = 2_932_896; // 9999-12-31
pub const USECS_DAY: i64 = 86_400_000_000;
pub const TS_MIN: i64 = DAY_MIN as i64 * USECS_DAY;
pub const TS_MAX: i64 = (DAY_MAX as i64 + 1) * USECS_DAY - 1;
pub const YM_MAX: i32 = 178_000_000 * 12;
pub const DT_MAX: i64 = 100_000_000 * USECS_DAY;

/// Draws an arbitrary real calendar date in years `ylo..=yhi` (symbolic under Kani).
pub fn any_ymd(ylo: i32, yhi: i32) -> (i32, u32, u32) {
    let y: i32 = kani::any();
    let m: u32 = kani::any();
    let d: u32 = kani::any();
    kani::assume(y >= ylo && y <= yhi);
    kani::assume(o_valid_ymd(y, m, d));
    (y, m, d)
}

/// Draws an arbitrary microsecond of the day.
pub fn any_tod() -> i64 {
    let t: i64 = kani::any();
    kani::assume(t >= 0 && t < USECS_DAY);
    t
}

/// Weekday 1..=7 (Sunday = 1) of a day number, anchored at day 0 = Thursday (5).
/// Independent of the implementation: Euclidean remainder in 64 bits.
pub fn o_weekday(n: i32) -> u32 {
    let r = ((n as i64 + 4) % 7 + 7) % 7; // 0 = Sunday
    r as u32 + 1
}

/// Fixed-capacity text sink used instead of `String` by the formatting harnesses.
pub struct Sink<const N: usize> {
    pub buf: [u8; N],
    pub len: usize,
    pub overflowed: bool,
}

impl<const N: usize> Sink<N> {
    pub fn new() -> Self {
        Sink {
            buf: [0u8; N],
            len: 0,
            overflowed: false,
        }
    }
    pub fn bytes(&self) -> &[u8] {
        &self.buf[..self.len]
    }
}

impl<const N: usize> std::fmt::Write for Sink<N> {
    fn write_str(&mut self, s: &str) -> std::fmt::Result {
        let b = s.as_bytes();
        if self.len + b.len() > N {
            self.overflowed = true;
            return Err(std::fmt::Error);
        }
        let mut i = 0;
        while i < b.len() {
            self.buf[self.len + i] = b[i];
            i += 1;
        }
        self.len += b.len();
        Ok(())
    }
}

// ---------------------------------------------------------------------------------------------
// Values of the crate's types from raw counts (the documented type invariants are assumed by
// the caller with `kani::assume`; the unchecked constructors are the crate's own public API)
// ---------------------------------------------------------------------------------------------
use crate::{Date, IntervalDT, IntervalYM, Time, Timestamp};

pub fn mk_date(n: i32) -> Date {
    unsafe { Date::from_days_unchecked(n) }
}
pub fn mk_time(t: i64) -> Time {
    unsafe { Time::from_usecs_unchecked(t) }
}
pub fn mk_ts(u: i64) -> Timestamp {
    unsafe { Timestamp::from_usecs_unchecked(u) }
}
pub fn mk_ym(m: i32) -> IntervalYM {
    unsafe { IntervalYM::from_months_unchecked(m) }
}
pub fn mk_dt(u: i64) -> IntervalDT {
    unsafe { IntervalDT::from_usecs_unchecked(u) }
}
#[cfg(feature = "oracle")]
pub fn mk_od(u: i64) -> crate::OracleDate {
    unsafe { crate::OracleDate::from_usecs_unchecked(u) }
}

pub fn any_i32_in(lo: i32, hi: i32) -> i32 {
    let n: i32 = kani::any();
    kani::assume(n >= lo && n <= hi);
    n
}
pub fn any_i64_in(lo: i64, hi: i64) -> i64 {
    let n: i64 = kani::any();
    kani::assume(n >= lo && n <= hi);
    n
}
/// Any valid `Date` (as a day number).
pub fn any_date() -> Date {
    mk_date(any_i32_in(DAY_MIN, DAY_MAX))
}
pub fn any_time() -> Time {
    mk_time(any_tod())
}
pub fn any_ts() -> Timestamp {
    mk_ts(any_i64_in(TS_MIN, TS_MAX))
}
pub fn any_ym() -> IntervalYM {
    mk_ym(any_i32_in(-YM_MAX, YM_MAX))
}
pub fn any_dt() -> IntervalDT {
    mk_dt(any_i64_in(-DT_MAX, DT_MAX))
}

// ---------------------------------------------------------------------------------------------
// Modular contracts (DESIGN.md 2.3).  The stub functions below replace kernels whose
// correctness over the whole domain is discharged separately (C01 / C07 obligations, which
// every check that uses a stub also runs).
// ---------------------------------------------------------------------------------------------

/// YMD-ghost: the day numbers the harness built from known triples, and those triples.
pub static mut GHOST_J: [i32; 2] = [i32::MIN; 2];
pub static mut GHOST_YMD: [(i32, u32, u32); 2] = [(0, 0, 0); 2];
const EPOCH_J: i32 = 2_440_588; // Julian day of 1970-01-01 (checked against the crate in c01_base)

/// Draws any real date of years `ylo..=yhi` as a triple, builds the `Date` with the crate's
/// forward conversion and registers it (and its calendar successor) as ghosts.
pub fn ghost_date(ylo: i32, yhi: i32) -> (Date, (i32, u32, u32)) {
    let (y, m, d) = any_ymd(ylo, yhi);
    let date = match Date::try_from_ymd(y, m, d) {
        Ok(x) => x,
        Err(_) => {
            assert!(false);
            mk_date(0)
        }
    };
    register_ghost(date, (y, m, d));
    (date, (y, m, d))
}

pub fn register_ghost(date: Date, ymd: (i32, u32, u32)) {
    unsafe {
        GHOST_J[0] = date.days() + EPOCH_J;
        GHOST_YMD[0] = ymd;
        if date.days() < DAY_MAX {
            GHOST_J[1] = date.days() + 1 + EPOCH_J;
            GHOST_YMD[1] = o_succ(ymd.0, ymd.1, ymd.2);
        }
    }
}

/// Stub for `common::julian2date` under the YMD-ghost contract: the ghost answers for the one or
/// two registered day numbers; any other in-range query gets *some* real date whose forward
/// conversion is the queried number (unique by C01); out-of-range queries fail the obligation.
pub fn ghost_julian2date(j: i32) -> (i32, u32, u32) {
    unsafe {
        if j == GHOST_J[0] {
            return GHOST_YMD[0];
        }
        if j == GHOST_J[1] {
            return GHOST_YMD[1];
        }
    }
    assert!(j >= DAY_MIN + EPOCH_J && j <= DAY_MAX + EPOCH_J);
    let y: i32 = kani::any();
    let m: u32 = kani::any();
    let d: u32 = kani::any();
    kani::assume(o_valid_ymd(y, m, d));
    kani::assume(crate::common::date2julian(y, m, d) == j);
    (y, m, d)
}

/// Forward conversion by the oracle: days before the year + day of year (no Julian-day formula).
/// Used only inside the stub fallback above.
pub fn fwd_julian(y: i32, m: u32, d: u32) -> i32 {
    let y1 = (y - 1) as i64;
    let n = y1 * 365 + y1 / 4 - y1 / 100 + y1 / 400 + o_doy(y, m, d) as i64 - 1; // days since 0001-01-01
    (n + DAY_MIN as i64 + EPOCH_J as i64) as i32
}

/// TS-split ghost: the timestamps the harness built from a known (day number, time of day) pair.
pub static mut GHOST_TS: [(i64, i32, i64); 2] = [(i64::MIN, 0, 0); 2];

/// Builds `Timestamp::new(date, time)` with the crate's own constructor and registers the pair.
pub fn ghost_ts(slot: usize, date: Date, t: i64) -> Timestamp {
    let ts = Timestamp::new(date, mk_time(t));
    unsafe {
        GHOST_TS[slot] = (ts.usecs(), date.days(), t);
    }
    ts
}

/// TS-split contract for `Timestamp::{extract, date, time}`: the unique `(n, t)` with
/// `n * 86_400_000_000 + t == usecs` and `0 <= t < 86_400_000_000`.  For a timestamp the
/// harness built the ghost pair is returned (so the solver has nothing to invert); any other
/// query gets an arbitrary pair constrained by the contract.  The contract itself is discharged
/// for the whole range by the c07_split obligations, which every user of these stubs also runs.
pub fn split_contract(usecs: i64) -> (i32, i64) {
    unsafe {
        if usecs == GHOST_TS[0].0 {
            return (GHOST_TS[0].1, GHOST_TS[0].2);
        }
        if usecs == GHOST_TS[1].0 {
            return (GHOST_TS[1].1, GHOST_TS[1].2);
        }
    }
    let n: i32 = kani::any();
    let t: i64 = kani::any();
    kani::assume(t >= 0 && t < USECS_DAY);
    kani::assume(n >= -110_000_000 && n <= 110_000_000);
    kani::assume((n as i128) * (USECS_DAY as i128) + t as i128 == usecs as i128);
    (n, t)
}
pub fn stub_ts_extract(ts: Timestamp) -> (Date, Time) {
    let (n, t) = split_contract(ts.usecs());
    (mk_date(n), mk_time(t))
}
pub fn stub_ts_date(ts: Timestamp) -> Date {
    mk_date(split_contract(ts.usecs()).0)
}
pub fn stub_ts_time(ts: Timestamp) -> Time {
    mk_time(split_contract(ts.usecs()).1)
}

/// `util::try_format` builds error *messages*; replacing it loses message text only.
pub fn stub_try_format(_args: std::fmt::Arguments<'_>) -> crate::error::Result<String> {
    Ok(String::new())
}

// ---------------------------------------------------------------------------------------------
// The clock as a symbolic variable: stub for `chrono::Local::now` (zero UTC offset).  Kani cannot
// compile the real one (it reaches libc time-zone code), and C18 wants every instant anyway.
// ---------------------------------------------------------------------------------------------
pub static mut CLOCK: (i32, u32, u32, u32, u32, u32, u32) = (2000, 1, 1, 0, 0, 0, 0);
pub static mut CLOCK_READS: u32 = 0;

pub fn stub_local_now() -> chrono::DateTime<chrono::Local> {
    let c = unsafe {
        CLOCK_READS += 1;
        CLOCK
    };
    let nd = chrono::NaiveDate::from_ymd_opt(c.0, c.1, c.2).unwrap();
    let ndt = nd.and_hms_micro_opt(c.3, c.4, c.5, c.6).unwrap();
    chrono::DateTime::<chrono::Local>::from_naive_utc_and_offset(ndt, chrono::FixedOffset::east_opt(0).unwrap())
}

/// Sets the stubbed clock to an arbitrary real calendar instant of years `ylo..=yhi` and returns it.
/// The seven values are drawn first thing so that the native replay can derive the clock shim's
/// epoch from the first seven inputs of the counterexample.
pub fn any_clock(ylo: i32, yhi: i32) -> (i32, u32, u32, u32, u32, u32, u32) {
    let y: i32 = kani::any();
    let m: u32 = kani::any();
    let d: u32 = kani::any();
    let h: u32 = kani::any();
    let mi: u32 = kani::any();
    let s: u32 = kani::any();
    let us: u32 = kani::any();
    kani::assume(y >= ylo && y <= yhi && o_valid_ymd(y, m, d) && h < 24 && mi < 60 && s < 60 && us < 1_000_000);
    unsafe {
        CLOCK = (y, m, d, h, mi, s, us);
        CLOCK_READS = 0;
    }
    (y, m, d, h, mi, s, us)
}

/// Sets the stubbed clock to the given concrete local date at 12:34:56.789012. Seven inputs are
/// still drawn (and pinned by the assumption) so that the native replay finds the clock in the
/// first seven inputs of a counterexample, as with `any_clock`.
pub fn pinned_clock(py: i32, pm: u32, pd: u32) -> (i32, u32, u32, u32, u32, u32, u32) {
    let y: i32 = kani::any();
    let m: u32 = kani::any();
    let d: u32 = kani::any();
    let h: u32 = kani::any();
    let mi: u32 = kani::any();
    let s: u32 = kani::any();
    let us: u32 = kani::any();
    kani::assume(y == py && m == pm && d == pd && h == 12 && mi == 34 && s == 56 && us == 789_012);
    unsafe {
        CLOCK = (py, pm, pd, 12, 34, 56, 789_012);
        CLOCK_READS = 0;
    }
    (py, pm, pd, 12, 34, 56, 789_012)
}

pub fn clock_reads() -> u32 {
    unsafe { CLOCK_READS }
}
