//! Shared support for every harness: (1) a native stand-in for the `kani` API so that the very
//! same harness bodies can be replayed against an ordinary build of the crate, and (2) the
//! reference models (oracles), written in the vocabulary of the property statements and
//! independently of the implementation's algorithms.
//!
//! Attached to the scratch copy's `lib.rs` as `mod verif_support` under
//! `cfg(any(kani, verif_replay))`.  Nothing here is compiled into the crate otherwise.
#![allow(dead_code, unused_macros, unused_imports)]

// ---------------------------------------------------------------------------------------------
// Native replay shim for the kani API (only when *not* compiled by kani-compiler)
// ---------------------------------------------------------------------------------------------
#[cfg(not(kani))]
pub mod kani {
    use std::cell::RefCell;
    use std::collections::VecDeque;
    use std::convert::TryInto;

    thread_local! {
        static STREAM: RefCell<VecDeque<u8>> = RefCell::new(VecDeque::new());
        static DRAWN: RefCell<usize> = RefCell::new(0);
    }

    /// The replay input is the concatenation, in draw order, of the little-endian bytes of
    /// every `kani::any()` value in the solver's counterexample.
    pub fn load(stream: Vec<u8>) {
        STREAM.with(|q| *q.borrow_mut() = stream.into_iter().collect());
    }

    pub fn drawn() -> usize {
        DRAWN.with(|d| *d.borrow())
    }

    fn next_bytes(n: usize) -> Vec<u8> {
        DRAWN.with(|d| *d.borrow_mut() += 1);
        let mut v = Vec::with_capacity(n);
        STREAM.with(|q| {
            let mut q = q.borrow_mut();
            for _ in 0..n {
                v.push(q.pop_front().unwrap_or(0));
            }
        });
        v
    }

    pub trait Arbitrary: Sized {
        fn any() -> Self;
    }

    macro_rules! arb_int {
        ($($t:ty),*) => {$(
            impl Arbitrary for $t {
                fn any() -> Self {
                    let b = next_bytes(std::mem::size_of::<$t>());
                    let mut a = [0u8; std::mem::size_of::<$t>()];
                    a.copy_from_slice(&b);
                    <$t>::from_le_bytes(a)
                }
            }
        )*};
    }
    arb_int!(u8, i8, u16, i16, u32, i32, u64, i64, u128, i128, usize, isize);

    impl Arbitrary for f64 {
        fn any() -> Self {
            f64::from_bits(u64::any())
        }
    }
    impl Arbitrary for f32 {
        fn any() -> Self {
            f32::from_bits(u32::any())
        }
    }
    impl Arbitrary for bool {
        fn any() -> Self {
            // kani: `let byte = u8::any(); assume(byte < 2); byte == 1`
            let b = u8::any();
            assume(b < 2);
            b == 1
        }
    }
    impl<T: Arbitrary, const N: usize> Arbitrary for [T; N] {
        fn any() -> Self {
            // kani draws arrays element by element, in index order
            let mut v: Vec<T> = Vec::with_capacity(N);
            for _ in 0..N {
                v.push(T::any());
            }
            match v.try_into() {
                Ok(a) => a,
                Err(_) => unreachable!(),
            }
        }
    }

    pub fn any<T: Arbitrary>() -> T {
        T::any()
    }

    /// A failed assumption means the solver's assignment is *not* a counterexample of the
    /// harness as natively executed: exit with a distinguished code.
    pub fn assume(cond: bool) {
        if !cond {
            eprintln!("VERIF-REPLAY: assumption failed (not a counterexample)");
            std::process::exit(77);
        }
    }

    macro_rules! cover_impl {
        ($($t:tt)*) => {{}};
    }
    pub(crate) use cover_impl as cover;
}

// ---------------------------------------------------------------------------------------------
// Calendar oracle - the proleptic Gregorian rules as the property statements put them
// ---------------------------------------------------------------------------------------------

/// Leap years every 4 years except century years not divisible by 400.
pub fn o_leap(y: i32) -> bool {
    if y % 400 == 0 {
        true
    } else if y % 100 == 0 {
        false
    } else {
        y % 4 == 0
    }
}

/// 28/29/30/31-day months.
pub fn o_dim(y: i32, m: u32) -> u32 {
    match m {
        1 | 3 | 5 | 7 | 8 | 10 | 12 => 31,
        4 | 6 | 9 | 11 => 30,
        _ => {
            if o_leap(y) {
                29
            } else {
                28
            }
        }
    }
}

/// A real date in years 1..=9999.
pub fn o_valid_ymd(y: i32, m: u32, d: u32) -> bool {
    y >= 1 && y <= 9999 && m >= 1 && m <= 12 && d >= 1 && d <= o_dim(y, m)
}

/// The calendar date following `(y, m, d)`.
pub fn o_succ(y: i32, m: u32, d: u32) -> (i32, u32, u32) {
    if d < o_dim(y, m) {
        (y, m, d + 1)
    } else if m < 12 {
        (y, m + 1, 1)
    } else {
        (y + 1, 1, 1)
    }
}

/// The calendar date preceding `(y, m, d)`.
pub fn o_pred(y: i32, m: u32, d: u32) -> (i32, u32, u32) {
    if d > 1 {
        (y, m, d - 1)
    } else if m > 1 {
        (y, m - 1, o_dim(y, m - 1))
    } else {
        (y - 1, 12, 31)
    }
}

/// Day of the year (1 Jan = 1), by summing month lengths.
pub fn o_doy(y: i32, m: u32, d: u32) -> u32 {
    let mut n = d;
    let mut k = 1;
    while k < m {
        n += o_dim(y, k);
        k += 1;
    }
    n
}

/// Lexicographic order on triples.
pub fn o_lt(a: (i32, u32, u32), b: (i32, u32, u32)) -> bool {
    a.0 < b.0 || (a.0 == b.0 && (a.1 < b.1 || (a.1 == b.1 && a.2 < b.2)))
}

pub const DAY_MIN: i32 = -719_162; // 0001-01-01
pub const DAY_MAX: i32 = 2_932_896; // 9999-12-31
pub const USECS_DAY: i64 = 86_400_000_000;
pub const TS_MIN: i64 = DAY_MIN as i64 * USECS_DAY;
pub const TS_MAX: i64 = (DAY_MAX as i64 + 1) * USECS_DAY - 1;
pub const YM_MAX: i32 = 178_000_000 * 12;
pub const DT_MAX: i64 = 100_000_000 * USECS_DAY;

/// Draws an arbitrary real calendar date in years `ylo..=yhi` (symbolic under Kani).
pub fn any_ymd(ylo: i32, yhi: i32) -> (i32, u32, u32) {
    let y: i32 = kani::any();
    let m: u32 = kani::any();
    let d: u32 = kani::any();
    kani::assume(y >= ylo && y <= yhi);
    kani::assume(o_valid_ymd(y, m, d));
    (y, m, d)
}

/// Draws an arbitrary microsecond of the day.
pub fn any_tod() -> i64 {
    let t: i64 = kani::any();
    kani::assume(t >= 0 && t < USECS_DAY);
    t
}

/// Weekday 1..=7 (Sunday = 1) of a day number, anchored at day 0 = Thursday (5).
/// Independent of the implementation: Euclidean remainder in 64 bits.
pub fn o_weekday(n: i32) -> u32 {
    let r = ((n as i64 + 4) % 7 + 7) % 7; // 0 = Sunday
    r as u32 + 1
}

/// Fixed-capacity text sink used instead of `String` by the formatting harnesses.
pub struct Sink<const N: usize> {
    pub buf: [u8; N],
    pub len: usize,
    pub overflowed: bool,
}

impl<const N: usize> Sink<N> {
    pub fn new() -> Self {
        Sink {
            buf: [0u8; N],
            len: 0,
            overflowed: false,
        }
    }
    pub fn bytes(&self) -> &[u8] {
        &self.buf[..self.len]
    }
}

impl<const N: usize> std::fmt::Write for Sink<N> {
    fn write_str(&mut self, s: &str) -> std::fmt::Result {
        let b = s.as_bytes();
        if self.len + b.len() > N {
            self.overflowed = true;
            return Err(std::fmt::Error);
        }
        let mut i = 0;
        while i < b.len() {
            self.buf[self.len + i] = b[i];
            i += 1;
        }
        self.len += b.len();
        Ok(())
    }
}
