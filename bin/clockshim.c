/* LD_PRELOAD clock for native replay of clock-dependent counterexamples:
 * CLOCK_REALTIME reads VERIF_CLOCK_SEC / VERIF_CLOCK_NSEC. */
#define _GNU_SOURCE
#include <dlfcn.h>
#include <stdlib.h>
#include <time.h>
#include <sys/time.h>

static int fixed(struct timespec *ts) {
    const char *s = getenv("VERIF_CLOCK_SEC");
    const char *n = getenv("VERIF_CLOCK_NSEC");
    if (!s) return 0;
    ts->tv_sec = (time_t)atoll(s);
    ts->tv_nsec = n ? atol(n) : 0;
    return 1;
}

int clock_gettime(clockid_t id, struct timespec *ts) {
    static int (*real)(clockid_t, struct timespec *);
    if (!real) real = dlsym(RTLD_NEXT, "clock_gettime");
    if (id == CLOCK_REALTIME && fixed(ts)) return 0;
    return real(id, ts);
}

int gettimeofday(struct timeval *tv, void *tz) {
    struct timespec ts;
    (void)tz;
    if (fixed(&ts)) { tv->tv_sec = ts.tv_sec; tv->tv_usec = ts.tv_nsec / 1000; return 0; }
    static int (*real)(struct timeval *, void *);
    if (!real) real = dlsym(RTLD_NEXT, "gettimeofday");
    return real(tv, tz);
}

time_t time(time_t *t) {
    struct timespec ts;
    if (fixed(&ts)) { if (t) *t = ts.tv_sec; return ts.tv_sec; }
    static time_t (*real)(time_t *);
    if (!real) real = dlsym(RTLD_NEXT, "time");
    return real(t);
}
