// Native evaluator for tools/validate_translator.py: reads "<fn> <args...>" lines, prints results.
use sqldatetime::*;
use std::io::BufRead;

fn main() {
    let stdin = std::io::stdin();
    for line in stdin.lock().lines() {
        let line = line.unwrap();
        let p: Vec<&str> = line.split_whitespace().collect();
        if p.is_empty() {
            continue;
        }
        let a: Vec<i128> = p[1..].iter().map(|x| x.parse().unwrap()).collect();
        let out: Vec<i128> = match p[0] {
            "date_extract" => {
                let (y, m, d) = unsafe { Date::from_days_unchecked(a[0] as i32) }.extract();
                vec![y as i128, m as i128, d as i128]
            }
            "date_from_ymd" => match Date::try_from_ymd(a[0] as i32, a[1] as u32, a[2] as u32) {
                Ok(d) => vec![0, d.days() as i128],
                Err(_) => vec![1],
            },
            "weekday" => vec![unsafe { Date::from_days_unchecked(a[0] as i32) }.day_of_week() as i128],
            "ts_extract" => {
                let (d, t) = unsafe { Timestamp::from_usecs_unchecked(a[0] as i64) }.extract();
                vec![d.days() as i128, t.usecs() as i128]
            }
            "time_extract" => {
                let (h, m, s, u) = unsafe { Time::from_usecs_unchecked(a[0] as i64) }.extract();
                vec![h as i128, m as i128, s as i128, u as i128]
            }
            "dt_extract" => {
                let (sg, d, h, m, s, u) = unsafe { IntervalDT::from_usecs_unchecked(a[0] as i64) }.extract();
                vec![sg as i128, d as i128, h as i128, m as i128, s as i128, u as i128]
            }
            "ym_extract" => {
                let (sg, y, m) = unsafe { IntervalYM::from_months_unchecked(a[0] as i32) }.extract();
                vec![sg as i128, y as i128, m as i128]
            }
            "time_add" => vec![unsafe { Time::from_usecs_unchecked(a[0] as i64) }
                .add_interval_dt(unsafe { IntervalDT::from_usecs_unchecked(a[1] as i64) })
                .usecs() as i128],
            "od_from_ts" => vec![OracleDate::from(unsafe { Timestamp::from_usecs_unchecked(a[0] as i64) }).usecs() as i128],
            "trunc_iso_year" => match unsafe { Date::from_days_unchecked(a[0] as i32) }.trunc_iso_year() {
                Ok(d) => vec![0, d.days() as i128],
                Err(_) => vec![1],
            },
            "round_week" => match unsafe { Date::from_days_unchecked(a[0] as i32) }.round_week() {
                Ok(d) => vec![0, d.days() as i128],
                Err(_) => vec![1],
            },
            "add_months" => match unsafe { Date::from_days_unchecked(a[0] as i32) }
                .add_interval_ym(unsafe { IntervalYM::from_months_unchecked(a[1] as i32) })
            {
                Ok(t) => vec![0, t.usecs() as i128],
                Err(_) => vec![1],
            },
            _ => vec![-999],
        };
        println!("{}", out.iter().map(|x| x.to_string()).collect::<Vec<_>>().join(" "));
    }
}
