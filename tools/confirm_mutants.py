#!/usr/bin/env python3
"""Confirms the sub-agents' seeded changes independently: in a scratch worktree of /repo the
change must compile, pass the existing suite (with and without features), its demonstration
must fail with the change and pass without it.  Confirmed changes are stored as
/verif/seeded/<id>/{patch.diff, demo.rs, meta.json}."""
import json, os, shutil, subprocess, sys, glob
WT = "/tmp/confirm-wt"
TARGET = "/tmp/confirm-target"
def sh(cmd, cwd=WT):
    e = dict(os.environ, CARGO_TARGET_DIR=TARGET, CARGO_NET_OFFLINE="true")
    r = subprocess.run(cmd, shell=True, cwd=cwd, env=e, capture_output=True, text=True)
    return r.returncode, (r.stdout + r.stderr)[-3000:]
def main():
    subprocess.run(["git", "-C", "/repo", "worktree", "remove", "--force", WT], capture_output=True)
    subprocess.check_call(["git", "-C", "/repo", "worktree", "add", "-q", "--detach", WT, "HEAD"])
    results = {}
    only = sys.argv[1:]
    for d in sorted(glob.glob("/tmp/wt-C*/out")):
        pid = d.split("/")[2][3:]
        if only and pid not in only:
            continue
        notes = {}
        try:
            notes = json.load(open(os.path.join(d, "notes.json")))
        except Exception:
            pass
        for v in ("A", "B"):
            diff = os.path.join(d, v + ".diff")
            demo = os.path.join(d, "demo_%s.rs" % v)
            if not (os.path.exists(diff) and os.path.exists(demo)):
                continue
            mid = "%s-%s" % (pid, v)
            sh("git checkout -q -- . && rm -rf tests")
            rc, out = sh("git apply %s" % diff)
            res = {"applies": rc == 0}
            if rc == 0:
                rc1, o1 = sh("cargo test --offline 2>&1 | tail -15")
                res["suite_nofeat"] = "test result: ok" in o1 and "FAILED" not in o1 and "error" not in o1.lower().split("test result")[0][-200:]
                rc2, o2 = sh("cargo test --offline --features oracle,serde 2>&1 | tail -15")
                res["suite_feat"] = "test result: ok" in o2 and "FAILED" not in o2
                os.makedirs(WT + "/tests", exist_ok=True)
                shutil.copy(demo, WT + "/tests/demo.rs")
                rc3, o3 = sh("cargo test --offline --features oracle,serde --test demo 2>&1 | tail -30")
                res["demo_fails_with_change"] = ("test result: FAILED" in o3) or ("panicked" in o3 and "test result: ok" not in o3)
                res["demo_out_with"] = o3[-600:]
                sh("git checkout -q -- src")
                rc4, o4 = sh("cargo test --offline --features oracle,serde --test demo 2>&1 | tail -12")
                res["demo_passes_without"] = "test result: ok" in o4 and "FAILED" not in o4
                sh("rm -rf tests")
            res["confirmed"] = all(res.get(k) for k in ("applies", "suite_nofeat", "suite_feat", "demo_fails_with_change", "demo_passes_without"))
            results[mid] = res
            print(mid, {k: v for k, v in res.items() if k != "demo_out_with"}, flush=True)
            if res["confirmed"]:
                sd = "/verif/seeded/%s" % mid
                os.makedirs(sd, exist_ok=True)
                shutil.copy(diff, sd + "/patch.diff")
                shutil.copy(demo, sd + "/demo.rs")
                n = notes.get(v, {})
                json.dump({"id": mid, "property": pid, "summary": n.get("summary"), "needs": n.get("needs"),
                           "files": n.get("files"), "origin": "independent sub-agent given only the property text and a scratch worktree",
                           "confirmed_by": "tools/confirm_mutants.py: applies to /repo HEAD; cargo test --offline (no features, and --features oracle,serde) green; demo fails with the change, passes without",
                           "repo_head": subprocess.run(["git", "-C", "/repo", "rev-parse", "HEAD"], capture_output=True, text=True).stdout.strip(),
                           }, open(sd + "/meta.json", "w"), indent=1)
    subprocess.run(["git", "-C", "/repo", "worktree", "remove", "--force", WT], capture_output=True)
    shutil.rmtree(TARGET, ignore_errors=True)
    json.dump(results, open("/var/tmp/logs/confirm.json", "w"), indent=1)
main()
