#!/usr/bin/env python3-vt
"""MIR -> SMT (integer arithmetic) symbolic executor for loop-free integer kernels of /repo.

The functions are taken from rustc's own MIR dump of the crate's *current source*
(`-Zunpretty=mir`), executed symbolically path by path (inputs are z3 Int/Bool variables, every
machine-integer operation carries its exact wrap-around / overflow-check semantics: with
`-C overflow-checks=on` an overflow is an `assert` terminator, i.e. a panic path), and the
property is decided by z3 over all values of the inputs.  Counterexamples are models of the
inputs, which the driver replays against a native build.

Supported MIR subset: integer/bool locals, tuples, structs, enums (Result/Option/ControlFlow and
the crate's own), shared references (as values), constant tables, calls to other functions of the
crate (inlined symbolically) and a few core intrinsics.  Anything else raises Unsupported - the
obligation is then reported as inconclusive, never as a pass.
"""
import re
import sys
import z3

INT = {"i8": (8, True), "i16": (16, True), "i32": (32, True), "i64": (64, True), "i128": (128, True),
       "isize": (64, True), "u8": (8, False), "u16": (16, False), "u32": (32, False), "u64": (64, False),
       "u128": (128, False), "usize": (64, False)}


class Unsupported(Exception):
    pass


def irange(t):
    w, s = INT[t]
    return (-(1 << (w - 1)), (1 << (w - 1)) - 1) if s else (0, (1 << w) - 1)


def I(v):
    return z3.IntVal(v) if isinstance(v, int) and not isinstance(v, bool) else v


def B(v):
    return z3.BoolVal(v) if isinstance(v, bool) else v


def simp(e):
    return z3.simplify(e) if z3.is_expr(e) else e


def tdiv(a, b):
    """Rust integer division (truncating)."""
    a, b = I(a), I(b)
    q = z3.If(z3.And(a >= 0, b > 0), a / b,
              z3.If(z3.And(a < 0, b > 0), -((-a) / b),
                    z3.If(z3.And(a >= 0, b < 0), -(a / (-b)), (-a) / (-b))))
    return simp(q)


def trem(a, b):
    return simp(I(a) - I(b) * tdiv(a, b))


def wrap(e, t):
    lo, hi = irange(t)
    m = hi - lo + 1
    return simp(z3.If(z3.And(e >= lo, e <= hi), e, ((e - lo) % m) + lo))


class Struct:
    def __init__(self, fields, name=""):
        self.f = list(fields)
        self.name = name

    def __repr__(self):
        return "%s(%s)" % (self.name, ", ".join(map(repr, self.f)))


class Enum:
    """discr: z3 Int; payload: variant name -> list of field values"""

    def __init__(self, discr, payload, name=""):
        self.d = I(discr)
        self.p = payload
        self.name = name

    def __repr__(self):
        return "%s{d=%s,%s}" % (self.name, self.d, self.p)


VARIANTS = {"Ok": 0, "Err": 1, "None": 0, "Some": 1, "Continue": 0, "Break": 1,
            "Less": -1, "Equal": 0, "Greater": 1}


def split_top(s, sep=","):
    out, depth, cur, i = [], 0, "", 0
    instr = False
    while i < len(s):
        c = s[i]
        if instr:
            cur += c
            if c == "\\":
                cur += s[i + 1]
                i += 1
            elif c == '"':
                instr = False
        elif c == '"':
            instr = True
            cur += c
        elif c in "([{<" and not (c == "<" and (i + 1 < len(s) and s[i + 1] in "= ")):
            depth += 1
            cur += c
        elif c in ")]}>" and not (c == ">" and i > 0 and s[i - 1] in "-="):
            depth -= 1
            cur += c
        elif c == sep and depth == 0:
            out.append(cur.strip())
            cur = ""
        else:
            cur += c
        i += 1
    if cur.strip():
        out.append(cur.strip())
    return out


def match_close(s, i):
    """index of the bracket closing the one at s[i] (only () [] {} counted)."""
    pairs = {"(": ")", "[": "]", "{": "}"}
    depth = 0
    instr = False
    j = i
    while j < len(s):
        c = s[j]
        if instr:
            if c == "\\":
                j += 1
            elif c == '"':
                instr = False
        elif c == '"':
            instr = True
        elif c in "([{":
            depth += 1
        elif c in ")]}":
            depth -= 1
            if depth == 0:
                return j
        j += 1
    raise Unsupported("unbalanced: " + s)


class Fn:
    def __init__(self, name, params, ret, locs, blocks, is_const_item=False):
        self.name, self.params, self.ret, self.locals, self.blocks = name, params, ret, locs, blocks
        self.is_const_item = is_const_item


def parse_mir(text):
    fns = {}
    consts = {}
    lines = text.split("\n")
    i = 0
    while i < len(lines):
        ln = lines[i]
        m = None
        if (ln.startswith("const ") or ln.startswith("static ")) and not ln.startswith("const fn") and " = " in ln:
            left, rest0 = ln.split(" = ", 1)
            left = left.split(" ", 1)[1]
            if ": " in left:
                m = left.rsplit(": ", 1) + [rest0]
        if m:
            name, ty, rest = m
            if rest.strip() != "{":
                consts[name] = ("lit", ty, rest.strip().rstrip(";"))
                i += 1
                continue
            body, i = grab_body(lines, i)
            consts[name] = ("fn", ty, parse_fn_body(name, [], ty, body, True))
            continue
        m = re.match(r"^(?:const )?fn (.+)$", ln)
        if m and ln.rstrip().endswith("{"):
            hdr = m.group(1).rstrip()[:-1].rstrip()
            # NAME(params) -> RET
            p0 = find_param_open(hdr)
            name = hdr[:p0]
            p1 = match_close(hdr, p0)
            params = []
            for p in split_top(hdr[p0 + 1:p1]):
                pm = re.match(r"(_\d+): (.*)$", p)
                if pm:
                    params.append((pm.group(1), pm.group(2)))
            ret = hdr[p1 + 1:].strip()
            ret = ret[2:].strip() if ret.startswith("->") else "()"
            body, i = grab_body(lines, i)
            fn = parse_fn_body(name, params, ret, body)
            fns.setdefault(name, []).append(fn)
            continue
        i += 1
    return fns, consts


def find_param_open(hdr):
    """The '(' that opens the parameter list: the first '(' at angle/bracket depth 0 that is
    followed (eventually) by the header's end or ' -> '."""
    depth = 0
    for j, c in enumerate(hdr):
        if c == "<":
            depth += 1
        elif c == ">" and j > 0 and hdr[j - 1] != "-":
            depth -= 1
        elif c == "(" and depth == 0:
            return j
    raise Unsupported("no params: " + hdr)


def grab_body(lines, i):
    body = []
    i += 1
    while i < len(lines) and lines[i] != "}":
        body.append(lines[i])
        i += 1
    return body, i + 1


def parse_fn_body(name, params, ret, body, is_const=False):
    locs = dict(params)
    locs["_0"] = ret
    blocks = {}
    cur = None
    for ln in body:
        s = ln.strip()
        m = re.match(r"let (?:mut )?(_\d+): (.*);$", s)
        if m:
            locs[m.group(1)] = m.group(2)
            continue
        m = re.match(r"(bb\d+)(?: \(cleanup\))?: \{$", s)
        if m:
            cur = m.group(1)
            blocks[cur] = []
            continue
        if s == "}" or s == "" or cur is None:
            if s == "}":
                pass
            continue
        if s.startswith("scope ") or s.startswith("debug "):
            continue
        # strip trailing comments
        s = re.sub(r"\s*//.*$", "", s)
        if s.endswith(";"):
            s = s[:-1]
        blocks[cur].append(s)
    return Fn(name, params, ret, locs, blocks, is_const)


# ------------------------------------------------------------------------------------------
class Engine:
    def __init__(self, mir_text, enums=None, max_paths=20000):
        self.fns, self.consts = parse_mir(mir_text)
        self.enums = enums or {}  # "path::Enum" -> {variant: discr}
        self.variant_of = {}
        for en, vs in self.enums.items():
            for v, d in vs.items():
                self.variant_of[en + "::" + v] = d
        self.const_cache = {}
        self.fn_ids = {}    # function name -> small integer standing for its address
        self.hints = []  # optional constraints that make a counterexample easier to replay natively
        self.stubs = {}  # last path segment of a callee -> generator(engine, args, pcs)
        self.solver = z3.Solver()
        self.query_timeout_ms = 1500000
        self.solver.set("timeout", self.query_timeout_ms)
        self.inputs = []
        self.pre = []
        self.max_paths = max_paths
        self.stats = {"paths": 0, "feasibility_queries": 0, "functions": set()}
        self.by_last = {}
        for name, lst in self.fns.items():
            last = name.split("::")[-1]
            self.by_last.setdefault(last, []).append(lst[-1])

    # ---- inputs
    def int_in(self, name, ty, lo=None, hi=None):
        v = z3.Int(name)
        l, h = irange(ty)
        lo = l if lo is None else lo
        hi = h if hi is None else hi
        self.assume(v >= lo, v <= hi)
        self.inputs.append((name, ty, v))
        return v

    def bool_in(self, name):
        v = z3.Bool(name)
        self.inputs.append((name, "bool", v))
        return v

    def assume(self, *cs):
        for c in cs:
            self.pre.append(c)
            self.solver.add(c)

    def feasible(self, pc):
        """Path pruning only: `unknown` (5 s budget) keeps the path, which is sound - the final
        query on that path is then decided with the full budget."""
        self.stats["feasibility_queries"] += 1
        self.solver.set("timeout", 5000)
        r = self.solver.check(*pc)
        self.solver.set("timeout", self.query_timeout_ms)
        return r != z3.unsat

    # ---- function lookup
    def find(self, last, ptypes=None, ret=None):
        c = self.by_last.get(last, [])
        if ptypes is not None:
            c = [f for f in c if [norm_ty(t) for _, t in f.params] == [norm_ty(t) for t in ptypes]]
        if ret is not None and len(c) > 1:
            c2 = [f for f in c if norm_ty(f.ret) == norm_ty(ret)]
            c = c2 or c
        if len(c) != 1:
            raise Unsupported("cannot resolve %s%s -> %s: %d candidates" % (last, ptypes, ret, len(c)))
        return c[0]

    # ---- constants
    def const_value(self, txt, ty_hint=None):
        txt = txt.strip()
        if txt in ("true", "false"):
            return z3.BoolVal(txt == "true")
        if txt == "()":
            return Struct([])
        m = re.match(r"^(-?\d+)_(\w+)$", txt)
        if m:
            return z3.IntVal(int(m.group(1)))
        m = re.match(r"^(-?[\d.]+(?:E[+-]?\d+)?)f64$", txt)
        if m:
            from fractions import Fraction
            fr = Fraction(float(m.group(1)))
            return z3.RealVal("%d/%d" % (fr.numerator, fr.denominator))
        m = re.match(r"^(\w+)::(MIN|MAX)$", txt)
        if m and m.group(1) in INT:
            lo, hi = irange(m.group(1))
            return z3.IntVal(lo if m.group(2) == "MIN" else hi)
        if txt in self.variant_of:
            en = txt.rsplit("::", 1)[0]
            return Enum(self.variant_of[txt], {}, en)
        if txt in self.const_cache:
            return self.const_cache[txt]
        if txt not in self.consts:
            segs = txt.split("::")
            cands = [k for k in self.consts if k.split("::")[-1] == segs[-1]]
            if len(cands) > 1 and len(segs) >= 2:
                c2 = [k for k in cands if k.split("::")[-2] == segs[-2] or norm_ty(self.consts[k][1]) == norm_ty("::".join(segs[:-1]))]
                cands = c2 or cands
            if len(cands) == 1:
                v = self.const_value(cands[0])
                self.const_cache[txt] = v
                return v
        if txt in self.consts:
            kind, ty, body = self.consts[txt]
            if kind == "lit":
                b = body.strip()
                if b.startswith("const "):
                    b = b[6:]
                v = self.const_value(b, ty)
            else:
                outs = list(self.run(body, [], []))
                if len(outs) != 1 or outs[0][1][0] != "ret":
                    raise Unsupported("const %s does not evaluate to one value" % txt)
                v = outs[0][1][1]
            self.const_cache[txt] = v
            return v
        # unit enum variant written as a path, e.g. error::Error::DateOutOfRange
        raise Unsupported("constant " + txt)

    # ---- places
    def parse_place(self, s):
        s = s.strip()
        if re.match(r"^_\d+$", s):
            return s, []
        if s.endswith("]") and not s.startswith("["):
            # find the '[' matching the final ']'
            depth = 0
            j = len(s) - 1
            while j >= 0:
                if s[j] == "]":
                    depth += 1
                elif s[j] == "[":
                    depth -= 1
                    if depth == 0:
                        break
                j -= 1
            base, proj = self.parse_place(s[:j])
            idx = s[j + 1:-1].strip()
            m = re.match(r"^(\d+) of \d+$", idx)
            if m:
                return base, proj + [("cindex", int(m.group(1)))]
            return base, proj + [("index", idx)]
        if s.startswith("(*") and match_close(s, 0) == len(s) - 1:
            base, proj = self.parse_place(s[2:-1])
            return base, proj + [("deref",)]
        if s.startswith("(") and match_close(s, 0) == len(s) - 1:
            inner = s[1:-1]
            if inner.startswith("("):
                j = match_close(inner, 0)
                prefix, rest = inner[:j + 1], inner[j + 1:]
            else:
                m = re.match(r"^(_\d+(?:\[[^\]]*\])*)(.*)$", inner)
                if not m:
                    raise Unsupported("place " + s)
                prefix, rest = m.group(1), m.group(2)
            base, proj = self.parse_place(prefix)
            m = re.match(r"^ as (\w+)$", rest)
            if m:
                return base, proj + [("downcast", m.group(1))]
            m = re.match(r"^\.(\d+): ", rest)
            if m:
                return base, proj + [("field", int(m.group(1)))]
            raise Unsupported("place " + s)
        raise Unsupported("place " + s)

    def read_place(self, env, s):
        base, proj = self.parse_place(s)
        if base not in env:
            raise Unsupported("read of unset local %s" % base)
        v = env[base]
        variant = None
        for p in proj:
            if p[0] == "deref":
                continue
            if p[0] == "downcast":
                variant = p[1]
                continue
            if p[0] == "field":
                if isinstance(v, Enum):
                    if variant is None or variant not in v.p:
                        raise Unsupported("enum payload %s not available in %r" % (variant, v))
                    v = v.p[variant][p[1]]
                    variant = None
                elif isinstance(v, Struct):
                    v = v.f[p[1]]
                else:
                    raise Unsupported("field of scalar")
                continue
            if p[0] == "cindex":
                v = v[p[1]]
                continue
            if p[0] == "index":
                idx = env[p[1]]
                if not isinstance(v, list):
                    raise Unsupported("index into non-array")
                v = select(v, idx)
                continue
        return v

    def write_place(self, env, s, val):
        base, proj = self.parse_place(s)
        proj = [p for p in proj if p[0] != "deref"]
        if not proj:
            env[base] = val
            return
        # only single-level field writes into a struct local are needed
        if len(proj) == 1 and proj[0][0] == "field":
            cur = env.get(base)
            if cur is None:
                cur = Struct([None] * (proj[0][1] + 1))
            f = list(cur.f)
            while len(f) <= proj[0][1]:
                f.append(None)
            f[proj[0][1]] = val
            env[base] = Struct(f, cur.name)
            return
        raise Unsupported("write to place " + s)

    # ---- operands / rvalues
    def operand(self, env, s):
        s = s.strip()
        if s.startswith("copy ") or s.startswith("move "):
            return self.read_place(env, s[5:])
        if s.startswith("const "):
            return self.const_value(s[6:])
        raise Unsupported("operand " + s)

    def rvalue(self, env, s, fn, dest_ty):
        s = s.strip()
        m = re.match(r"^(\w+)\((.*)\)$", s)
        if m and m.group(1) in BINOPS and match_close(s, len(m.group(1))) == len(s) - 1:
            a, b = [self.operand(env, x) for x in split_top(m.group(2))]
            return self.binop(m.group(1), a, b, dest_ty)
        if m and m.group(1) in ("Not", "Neg") and match_close(s, len(m.group(1))) == len(s) - 1:
            a = self.operand(env, m.group(2))
            if m.group(1) == "Not":
                if z3.is_bool(a):
                    return simp(z3.Not(a))
                raise Unsupported("bitwise Not on integers")
            return simp(-a)
        if s.startswith("discriminant("):
            v = self.read_place(env, s[len("discriminant("):-1])
            if not isinstance(v, Enum):
                raise Unsupported("discriminant of non-enum")
            return v.d
        m = re.match(r"^([\w:<>]+) as fn\(.*\(PointerCoercion\(ReifyFnPointer", s)
        if m:
            name = m.group(1)
            if name not in self.fn_ids:
                self.fn_ids[name] = 1000 + len(self.fn_ids)
            return z3.IntVal(self.fn_ids[name])
        m = re.match(r"^(.*) as ([\w:]+) \((\w+)(?:\(.*\))?\)$", s)
        if m and (s.startswith("copy ") or s.startswith("move ") or s.startswith("const ")):
            v = self.operand(env, m.group(1))
            kind, ty = m.group(3), m.group(2)
            if kind == "IntToInt" and ty in INT:
                if isinstance(v, Enum):
                    v = v.d
                if z3.is_bool(v):
                    v = z3.If(v, z3.IntVal(1), z3.IntVal(0))
                return wrap(v, ty)
            if kind == "Transmute":
                return v
            if kind == "IntToFloat":
                # floats are modelled as reals whose operations are uninterpreted functions: sound
                # for properties that compare results of the *same* float expression
                return z3.ToReal(v)
            raise Unsupported("cast " + s)
        if s.startswith("&raw "):
            raise Unsupported("raw pointer")
        if s.startswith("&mut "):
            raise Unsupported("mutable reference: " + s)
        if s.startswith("&"):
            return self.read_place(env, s[1:])
        if s.startswith("copy ") or s.startswith("move ") or s.startswith("const "):
            return self.operand(env, s)
        if s.startswith("[") and s.endswith("]"):
            inner = s[1:-1]
            if ";" in inner and len(split_top(inner, ";")) == 2:
                a, n = split_top(inner, ";")
                v = self.operand(env, a)
                n = self.const_value(n.replace("const ", "")) if "const" in n else z3.IntVal(int(re.sub(r"_\w+$", "", n)))
                return [v] * n.as_long()
            return [self.operand(env, x) for x in split_top(inner)]
        if s.startswith("(") and s.endswith(")") and match_close(s, 0) == len(s) - 1:
            return Struct([self.operand(env, x) for x in split_top(s[1:-1])])
        # ADT aggregate:  Path::<..>::Variant(args) | Path(args) | Path { f: a, .. } | Path::UnitVariant
        path, args = s, []
        if s.endswith(")"):
            depth_, j = 0, len(s) - 1
            while j >= 0:
                if s[j] == ")":
                    depth_ += 1
                elif s[j] == "(":
                    depth_ -= 1
                    if depth_ == 0:
                        break
                j -= 1
            if j > 0 and re.match(r"[\w>]", s[j - 1]):
                path = s[:j]
                args = [self.operand(env, x) for x in split_top(s[j + 1:-1])]
        elif s.endswith("}") and " { " in s:
            j = s.index(" { ")
            path = s[:j]
            for fld in split_top(s[j + 3:-1].strip()):
                args.append(self.operand(env, fld.split(":", 1)[1]))
        # drop generic arguments
        pth, depth_ = "", 0
        for ch in path:
            if ch == "<":
                depth_ += 1
            elif ch == ">":
                depth_ -= 1
            elif depth_ == 0:
                pth += ch
        path = re.sub(r"::::", "::", pth).strip()
        path = re.sub(r"::$", "", path)
        if re.match(r"^[\w:]+$", path):
            last = path.split("::")[-1]
            if path in self.variant_of:
                return Enum(self.variant_of[path], {last: args}, path.rsplit("::", 1)[0])
            if last in VARIANTS and re.search(r"(Result|Option|ControlFlow|Ordering)", path):
                return Enum(VARIANTS[last], {last: args}, path.rsplit("::", 1)[0])
            return Struct(args, path)
        raise Unsupported("rvalue " + s)

    def binop(self, op, a, b, ty):
        if isinstance(a, Enum):
            a = a.d
        if isinstance(b, Enum):
            b = b.d
        if op in ("AddWithOverflow", "SubWithOverflow", "MulWithOverflow"):
            t = ty.strip("()").split(",")[0].strip()
            e = {"A": a + b, "S": a - b, "M": a * b}[op[0]]
            lo, hi = irange(t)
            return Struct([wrap(e, t), simp(z3.Or(e < lo, e > hi))])
        if op in ("Add", "Sub", "Mul", "AddUnchecked", "SubUnchecked", "MulUnchecked"):
            e = {"A": a + b, "S": a - b, "M": a * b}[op[0]]
            return wrap(e, ty) if ty in INT else simp(e)
        if (z3.is_expr(a) and a.sort() == z3.RealSort()) or (z3.is_expr(b) and b.sort() == z3.RealSort()):
            f = z3.Function("f64_" + op.lower(), z3.RealSort(), z3.RealSort(), z3.RealSort() if op in ("Add", "Sub", "Mul", "Div") else z3.BoolSort())
            if op not in ("Add", "Sub", "Mul", "Div"):
                raise Unsupported("float comparison")
            return f(a, b)
        if op == "Div":
            return tdiv(a, b)
        if op == "Rem":
            return trem(a, b)
        if op in ("Eq", "Ne", "Lt", "Le", "Gt", "Ge"):
            if z3.is_bool(a) or z3.is_bool(b):
                a, b = B(a), B(b)
                r = (a == b) if op == "Eq" else (a != b) if op == "Ne" else None
                if r is None:
                    raise Unsupported("ordering on bool")
                return simp(r)
            return simp({"Eq": a == b, "Ne": a != b, "Lt": a < b, "Le": a <= b, "Gt": a > b, "Ge": a >= b}[op])
        if op == "Cmp":
            return Enum(z3.If(a < b, z3.IntVal(-1), z3.If(a == b, z3.IntVal(0), z3.IntVal(1))), {}, "Ordering")
        if op in ("BitAnd", "BitOr", "BitXor") and z3.is_bool(a):
            return simp({"BitAnd": z3.And(a, b), "BitOr": z3.Or(a, b), "BitXor": z3.Xor(a, b)}[op])
        raise Unsupported("binop %s" % op)

    # ---- execution: yields (path condition list, ("ret", value) | ("panic", msg))
    def run(self, fn, args, pc, depth=0):
        if depth > 40:
            raise Unsupported("call depth")
        self.stats["functions"].add(fn.name)
        env0 = {}
        for (p, _), v in zip(fn.params, args):
            env0[p] = v
        stack = [("bb0", env0, list(pc), 0)]
        while stack:
            bb, env, pcs, steps = stack.pop()
            if steps > 400:
                raise Unsupported("loop or very long path in %s" % fn.name)
            stmts = fn.blocks[bb]
            done = False
            for st in stmts[:-1]:
                self.stmt(env, st, fn)
            term = stmts[-1]
            for nxt in self.terminator(env, term, fn, pcs, depth):
                kind = nxt[0]
                if kind == "goto":
                    stack.append((nxt[1], nxt[2], nxt[3], steps + 1))
                else:
                    self.stats["paths"] += 1
                    if self.stats["paths"] > self.max_paths:
                        raise Unsupported("more than %d paths" % self.max_paths)
                    yield nxt[3], (kind, nxt[1])

    def stmt(self, env, st, fn):
        if re.match(r"^(StorageLive|StorageDead|FakeRead|PlaceMention|AscribeUserType|Retag|Coverage|nop|ConstEvalCounter|BackwardIncompatibleDropHint)\b", st):
            return
        m = re.match(r"^discriminant\((.*)\) = (-?\d+)$", st)
        if m:
            raise Unsupported("SetDiscriminant")
        eq = find_assign(st)
        if eq < 0:
            raise Unsupported("statement " + st)
        lhs, rhs = st[:eq].strip(), st[eq + 3:].strip()
        base, _ = self.parse_place(lhs)
        val = self.rvalue(env, rhs, fn, fn.locals.get(base, ""))
        self.write_place(env, lhs, val)

    def terminator(self, env, t, fn, pcs, depth):
        if t.startswith("goto -> "):
            yield ("goto", t[8:].strip(), env, pcs)
            return
        if t == "return":
            yield ("ret", env.get("_0", Struct([])), None, pcs)
            return
        if t in ("unreachable", "resume") or t.startswith("resume"):
            if self.feasible(pcs):
                yield ("panic", "reached `%s` terminator in %s" % (t, fn.name), None, pcs)
            return
        m = re.match(r"^switchInt\((.*)\) -> \[(.*)\]$", t)
        if m:
            v = self.operand(env, m.group(1))
            if isinstance(v, Enum):
                v = v.d
            targets = split_top(m.group(2))
            taken = []
            for tg in targets:
                k, bbn = [x.strip() for x in tg.split(":")]
                if k == "otherwise":
                    c = z3.And(*[z3.Not(x) for x in taken]) if taken else z3.BoolVal(True)
                else:
                    kv = int(k)
                    c = (v if kv != 0 else z3.Not(v)) if z3.is_bool(v) else (v == kv)
                    taken.append(c)
                c = simp(c)
                if z3.is_false(c):
                    continue
                npc = pcs if z3.is_true(c) else pcs + [c]
                if z3.is_true(c) or self.feasible(npc):
                    yield ("goto", bbn, dict(env), npc)
            return
        m = re.match(r"^assert\((.*)\) -> \[success: (bb\d+), unwind.*\]$", t)
        if m:
            parts = split_top(m.group(1))
            cond = parts[0]
            neg = cond.startswith("!")
            v = self.operand(env, cond[1:] if neg else cond)
            ok = simp(z3.Not(v) if neg else v)
            if not z3.is_true(ok):
                bad = pcs + [simp(z3.Not(ok))]
                if self.feasible(bad):
                    yield ("panic", "%s in %s" % (parts[1] if len(parts) > 1 else "assert", fn.name), None, bad)
            if not z3.is_false(ok):
                npc = pcs if z3.is_true(ok) else pcs + [ok]
                if z3.is_true(ok) or self.feasible(npc):
                    yield ("goto", m.group(2), env, npc)
            return
        m = re.match(r"^drop\(.*\) -> \[return: (bb\d+), unwind.*\]$", t)
        if m:
            yield ("goto", m.group(1), env, pcs)
            return
        # call
        m = re.match(r"^(.*?) = (.*)\) -> (?:\[return: (bb\d+), unwind.*\]|unwind.*)$", t)
        if m:
            dest, callexpr, retbb = m.group(1), m.group(2) + ")", m.group(3)
            close = len(callexpr) - 1
            # find the '(' matching the final ')'
            depth_, j = 0, close
            while j >= 0:
                if callexpr[j] == ")":
                    depth_ += 1
                elif callexpr[j] == "(":
                    depth_ -= 1
                    if depth_ == 0:
                        break
                j -= 1
            callee = callexpr[:j].strip()
            argtxt = split_top(callexpr[j + 1:close])
            args = []
            for a in argtxt:
                if a.startswith(("copy ", "move ", "const ")):
                    args.append(self.operand(env, a))
                else:
                    args.append(("fnitem", a))  # a function item / closure passed by value
            base, _ = self.parse_place(dest)
            for outpc, out in self.call(callee, args, argtxt, env, fn, pcs, depth, fn.locals.get(base, "")):
                if out[0] == "panic":
                    yield ("panic", out[1], None, outpc)
                elif retbb is None:
                    continue
                else:
                    e2 = dict(env)
                    self.write_place(e2, dest, out[1])
                    yield ("goto", retbb, e2, outpc)
            return
        raise Unsupported("terminator " + t)

    def call(self, callee, args, argtxt, env, fn, pcs, depth, dest_ty):
        c = callee
        if re.match(r"^(move|copy) ", c):
            # call through a function pointer: one path per function whose address it can hold
            v = self.operand(env, c)
            any_target = False
            for name, fid in list(self.fn_ids.items()):
                cond = simp(v == fid)
                if z3.is_false(cond):
                    continue
                npc = pcs if z3.is_true(cond) else pcs + [cond]
                if not (z3.is_true(cond) or self.feasible(npc)):
                    continue
                if name not in self.fns:
                    raise Unsupported("indirect call target %s not in the dump" % name)
                any_target = True
                for r in self.run(self.fns[name][-1], args, npc, depth + 1):
                    yield r
            if not any_target:
                raise Unsupported("indirect call with no feasible target")
            return
        if re.search(r"panicking::|panic_fmt|begin_panic|::panic\b|unreachable_display|panic_const", c):
            if self.feasible(pcs):
                yield pcs, ("panic", "call to %s in %s" % (c, fn.name))
            return
        m = re.match(r"^core::num::<impl (\w+)>::(\w+)$", c)
        if m:
            t, name = m.group(1), m.group(2)
            a = args[0]
            lo, hi = irange(t)
            if name == "is_negative":
                yield pcs, ("ret", simp(a < 0)); return
            if name == "is_positive":
                yield pcs, ("ret", simp(a > 0)); return
            if name == "abs":
                bad = pcs + [a == lo]
                if self.feasible(bad):
                    yield bad, ("panic", "abs overflow")
                yield pcs + [a != lo], ("ret", simp(z3.If(a < 0, -a, a))); return
            if name == "unsigned_abs":
                yield pcs, ("ret", simp(z3.If(a < 0, -a, a))); return
            if name == "signum":
                yield pcs, ("ret", simp(z3.If(a < 0, z3.IntVal(-1), z3.If(a == 0, z3.IntVal(0), z3.IntVal(1))))); return
            if name in ("checked_add", "checked_sub", "checked_mul"):
                e = {"a": a + args[1], "s": a - args[1], "m": a * args[1]}[name[8]]
                ok = simp(z3.And(e >= lo, e <= hi))
                yield pcs, ("ret", Enum(z3.If(ok, z3.IntVal(1), z3.IntVal(0)), {"Some": [simp(e)]}, "Option")); return
            if name in ("wrapping_add", "wrapping_sub", "wrapping_mul"):
                e = {"a": a + args[1], "s": a - args[1], "m": a * args[1]}[name[9]]
                yield pcs, ("ret", wrap(e, t)); return
            if name == "rem_euclid":
                yield pcs, ("ret", simp(a % args[1])); return
            if name == "div_euclid":
                yield pcs, ("ret", simp(a / args[1])); return
            raise Unsupported("core::num %s" % name)
        if re.search(r" as (std|core)::ops::Try>::branch$", c):
            v = args[0]
            name = "Result" if "Result" in c else "Option"
            if name == "Result":
                # Ok(x) -> Continue(x); Err(e) -> Break(Err(e))
                pay = {}
                if "Ok" in v.p:
                    pay["Continue"] = v.p["Ok"]
                pay["Break"] = [Enum(1, {"Err": v.p.get("Err", [])}, "Result")]
                yield pcs, ("ret", Enum(v.d, pay, "ControlFlow")); return
            pay = {"Break": [Enum(0, {}, "Option")]}
            if "Some" in v.p:
                pay["Continue"] = v.p["Some"]
            yield pcs, ("ret", Enum(simp(1 - v.d), pay, "ControlFlow")); return
        if re.search(r"FromResidual<.*>>::from_residual$", c):
            yield pcs, ("ret", args[0]); return
        if re.search(r"(Option|Result)<.*>::(unwrap|expect)$", c) or re.search(r"::(unwrap|expect)$", c) and isinstance(args[0], Enum):
            v = args[0]
            good = "Some" if "Some" in v.p or "Option" in v.name else "Ok"
            gd = VARIANTS[good]
            bad = pcs + [v.d != gd]
            if self.feasible(bad):
                yield bad, ("panic", "unwrap on %s in %s" % ("None" if good == "Some" else "Err", fn.name))
            if good in v.p:
                npc = pcs + [v.d == gd]
                if self.feasible(npc):
                    yield npc, ("ret", v.p[good][0])
            return
        if re.search(r"::(is_some|is_ok)$", c) and isinstance(args[0], Enum):
            yield pcs, ("ret", simp(args[0].d == (1 if c.endswith("is_some") else 0))); return
        if re.search(r"::(is_none|is_err)$", c) and isinstance(args[0], Enum):
            yield pcs, ("ret", simp(args[0].d == (0 if c.endswith("is_none") else 1))); return
        if re.search(r"Result::<.*>::map_err::<", c) or re.search(r"Result<.*>::map_err$", c):
            v = args[0]
            pay = {"Err": [("opaque-error",)]}
            if "Ok" in v.p:
                pay["Ok"] = v.p["Ok"]
            yield pcs, ("ret", Enum(v.d, pay, "Result")); return
        if re.search(r"(as (std|core)::cmp::Ord>::cmp|impl (std::cmp::)?Ord for \w+>::cmp)$", c) and z3.is_expr(args[0]) and args[0].sort() == z3.IntSort():
            a, b = args[0], args[1]
            yield pcs, ("ret", Enum(z3.If(a < b, z3.IntVal(-1), z3.If(a == b, z3.IntVal(0), z3.IntVal(1))), {}, "Ordering")); return
        if re.search(r"(as (std|core)::cmp::PartialOrd>::partial_cmp|impl (std::cmp::)?PartialOrd for \w+>::partial_cmp)$", c) and z3.is_expr(args[0]) and args[0].sort() == z3.IntSort():
            a, b = args[0], args[1]
            o = Enum(z3.If(a < b, z3.IntVal(-1), z3.If(a == b, z3.IntVal(0), z3.IntVal(1))), {}, "Ordering")
            yield pcs, ("ret", Enum(1, {"Some": [o]}, "Option")); return
        if re.search(r"as (std|core)::clone::Clone>::clone$", c):
            yield pcs, ("ret", args[0]); return
        # crate function: resolve by last segment + argument types
        last = re.sub(r"::<.*>$", "", c).split("::")[-1]
        if last == "into" and " as " in c:
            last = "from"
        if last in self.stubs and self.stubs[last][0](c):
            for r in self.stubs[last][1](self, args, pcs, c):
                yield r
            return
        ptypes = []
        for a in argtxt:
            a = a.strip()
            if a.startswith(("copy ", "move ")):
                base, proj = self.parse_place(a[5:])
                ptypes.append(fn.locals.get(base) if not proj else place_type(a[5:]))
            else:
                mm = re.match(r"^const -?\d+_(\w+)$", a)
                if mm:
                    ptypes.append(mm.group(1))
                elif a in ("const true", "const false"):
                    ptypes.append("bool")
                elif a.startswith("const ") and a[6:] in self.consts:
                    ptypes.append(self.consts[a[6:]][1])
                else:
                    ptypes.append(None)
        cands = [f for f in self.by_last.get(last, []) if len(f.params) == len(args)]
        exact = [f for f in cands if all(p is None or norm_ty(p) == norm_ty(t) for p, (_, t) in zip(ptypes, f.params))]
        if len(exact) > 1 and dest_ty:
            e2 = [f for f in exact if norm_ty(f.ret) == norm_ty(dest_ty)]
            exact = e2 or exact
        if len(exact) != 1:
            raise Unsupported("cannot resolve call %s (%s): %d candidates" % (c, ptypes, len(exact)))
        for r in self.run(exact[0], args, pcs, depth + 1):
            yield r


BINOPS = {"Add", "Sub", "Mul", "Div", "Rem", "Eq", "Ne", "Lt", "Le", "Gt", "Ge", "BitAnd", "BitOr", "BitXor",
          "AddWithOverflow", "SubWithOverflow", "MulWithOverflow", "Cmp", "AddUnchecked", "SubUnchecked",
          "MulUnchecked", "Shl", "Shr"}


def find_assign(st):
    depth = 0
    for i in range(len(st) - 2):
        c = st[i]
        if c in "([{":
            depth += 1
        elif c in ")]}":
            depth -= 1
        elif depth == 0 and st[i:i + 3] == " = ":
            return i
    return -1


def place_type(s):
    """Type annotation of the outermost field projection of a place string."""
    s = s.strip()
    if s.startswith("(") and s.endswith(")"):
        inner = s[1:-1]
        depth = 0
        for i, c in enumerate(inner):
            if c in "([{":
                depth += 1
            elif c in ")]}":
                depth -= 1
            elif depth == 0 and inner[i:i + 2] == ": ":
                return inner[i + 2:]
    return None


def norm_ty(t):
    if t is None:
        return None
    t = re.sub(r"'\w+ ", "", t)
    t = t.replace("&mut ", "&").replace(" ", "")
    return t


def select(arr, idx):
    """arr[idx] with a symbolic index over a short constant table."""
    idx = I(idx)
    if z3.is_int_value(idx):
        return arr[idx.as_long()]
    v = arr[-1]
    for k in range(len(arr) - 2, -1, -1):
        v = merge(idx == k, arr[k], v)
    return v


def merge(c, a, b):
    if isinstance(a, Struct):
        return Struct([merge(c, x, y) for x, y in zip(a.f, b.f)], a.name)
    if isinstance(a, list):
        return [merge(c, x, y) for x, y in zip(a, b)]
    if isinstance(a, Enum):
        p = {}
        for k in set(a.p) | set(b.p):
            if k in a.p and k in b.p:
                p[k] = [merge(c, x, y) for x, y in zip(a.p[k], b.p[k])]
            else:
                p[k] = a.p.get(k, b.p.get(k))
        return Enum(z3.If(c, a.d, b.d), p, a.name)
    return simp(z3.If(c, a, b))
