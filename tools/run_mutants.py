#!/usr/bin/env python3
"""Runs the registered checks against the seeded changes in /verif/seeded/<id>/.

For every change a scratch worktree of /repo's HEAD gets the patch applied and the check of the
property it targets (or the ones given with --props) runs against that tree (VERIF_REPO), with its
evidence and replay files redirected so that /verif/evidence is never touched.  Results go to
/verif/seeded/RESULTS.json: exit code (1 = detected, 0 = missed, 2 = inconclusive) and the
obligation that caught it."""
import argparse, json, os, re, subprocess, sys, glob, shutil, time
from concurrent.futures import ThreadPoolExecutor
VERIF = os.path.dirname(os.path.dirname(os.path.abspath(__file__)))

def run_one(mid, props, tier, jobs, only=None):
    sd = os.path.join(VERIF, "seeded", mid)
    wt = "/tmp/mutwt-%s" % mid
    subprocess.run(["git", "-C", "/repo", "worktree", "remove", "--force", wt], capture_output=True)
    subprocess.check_call(["git", "-C", "/repo", "worktree", "add", "-q", "--detach", wt, "HEAD"])
    out = {}
    try:
        r = subprocess.run(["git", "-C", wt, "apply", os.path.join(sd, "patch.diff")], capture_output=True, text=True)
        if r.returncode != 0:
            return {"error": "patch does not apply: " + r.stderr[-300:]}
        for prop in props:
            env = dict(os.environ, VERIF_REPO=wt, VERIF_EVIDENCE_DIR="/var/tmp/mut-ev/%s" % mid,
                       VERIF_REPLAY_DIR="/var/tmp/mut-replay/%s" % mid, VERIF_JOBS=str(jobs))
            t0 = time.time()
            cmd = [os.path.join(VERIF, "bin", "check"), prop, "--tier", tier, "--failfast"]
            if only:
                # restricted to the obligations named (a subset of the tier): used to re-confirm a catch cheaply
                cmd += ["--only", only]
            p = subprocess.run(cmd, capture_output=True, text=True, env=env)
            log = p.stdout + p.stderr
            os.makedirs("/var/tmp/logs/mut", exist_ok=True)
            open("/var/tmp/logs/mut/%s-%s.log" % (mid, prop), "w").write(log)
            viol = re.findall(r"VIOLATION property=\S+ replay=\S*?-([\w]+)\.json", log)
            cex = re.findall(r"counterexample (\S+): (.*)", log)
            inc = re.findall(r"INCONCLUSIVE (\S+): (.*)", log)
            out[prop] = {"exit": p.returncode, "caught_by": viol, "counterexample": [c[1][:200] for c in cex][:2],
                         "inconclusive": [("%s: %s" % i)[:200] for i in inc][:3], "wall_s": round(time.time() - t0)}
    finally:
        subprocess.run(["git", "-C", "/repo", "worktree", "remove", "--force", wt], capture_output=True)
    return out

def main():
    ap = argparse.ArgumentParser()
    ap.add_argument("ids", nargs="*")
    ap.add_argument("--props")
    ap.add_argument("--tier", default="quick")
    ap.add_argument("--parallel", type=int, default=2)
    ap.add_argument("--jobs", type=int, default=8)
    ap.add_argument("--only")
    a = ap.parse_args()
    ids = a.ids or sorted(os.path.basename(d) for d in glob.glob(os.path.join(VERIF, "seeded", "*-*")))
    resf = os.path.join(VERIF, "seeded", "RESULTS.json")
    results = json.load(open(resf)) if os.path.exists(resf) else {}
    def work(mid):
        meta = json.load(open(os.path.join(VERIF, "seeded", mid, "meta.json")))
        props = a.props.split(",") if a.props else [meta["property"]]
        r = run_one(mid, props, a.tier, a.jobs, a.only)
        if a.only:
            for v in r.values():
                if isinstance(v, dict):
                    v["restricted_to"] = a.only
        print(mid, json.dumps(r)[:4000], flush=True)
        return mid, r
    with ThreadPoolExecutor(a.parallel) as ex:
        for mid, r in ex.map(work, ids):
            results.setdefault(mid, {}).update(r)
            json.dump(results, open(resf, "w"), indent=1, sort_keys=True)
main()
