#!/usr/bin/env python3
"""Rewrites section 8 of DESIGN.md (the table of seeded changes) from seeded/*/meta.json and
seeded/RESULTS.json."""
import glob, json, os, re
V = os.path.dirname(os.path.dirname(os.path.abspath(__file__)))
res = json.load(open(os.path.join(V, "seeded", "RESULTS.json")))
rows = []
for d in sorted(glob.glob(os.path.join(V, "seeded", "*-*"))):
    mid = os.path.basename(d)
    meta = json.load(open(os.path.join(d, "meta.json")))
    r = res.get(mid, {})
    cells = []
    for prop, x in sorted(r.items()):
        if not isinstance(x, dict) or "exit" not in x:
            continue
        verdict = {1: "caught", 0: "MISSED", 2: "inconclusive"}.get(x["exit"], str(x["exit"]))
        by = ", ".join(sorted(set(x.get("caught_by") or [])))[:90]
        extra = ""
        if x.get("restricted_to"):
            extra += " [re-run restricted to the obligations `%s` of the quick tier]" % x["restricted_to"].replace("|", "/")
        if x.get("note"):
            extra += " (%s)" % x["note"]
        cells.append("%s quick: %s%s%s" % (prop, verdict, (" by " + by) if by else "", extra))
    what = (meta.get("summary") or "").replace("|", "/").replace("\n", " ")[:170]
    rows.append("| %s | %s | %s | %s |" % (mid, meta["property"], what, "; ".join(cells) or "not run"))
table = ("| change | targets | what it does | result of the registered check(s) on the changed tree |\n|---|---|---|---|\n" + "\n".join(rows) + "\n")
p = os.path.join(V, "DESIGN.md")
s = open(p).read()
a = s.index("## 8. Seeded changes")
head = ("## 8. Seeded changes (independent sub-agents) and which checks catch them\n\n"
        "38 changes were written by 19 independent sub-agents that saw only the text of one property and a scratch worktree\n"
        "(two per property); each compiles, passes the existing suite with and without features, and comes with a demonstration\n"
        "that fails with the change and passes without it - all re-confirmed by `tools/confirm_mutants.py` before being stored as\n"
        "`seeded/<id>/{patch.diff, demo.rs, meta.json}`.  `FIXnn-*` entries are the reverted `fix:` commits of section 7 (the real\n"
        "defects).  `tools/run_mutants.py` applies a change to a scratch worktree of `/repo` and runs the registered quick check of\n"
        "the targeted property against it (`VERIF_REPO`), with evidence and replay files redirected; `/repo` itself is never touched.\n"
        "caught = exit 1 with a natively replayed counterexample; inconclusive = exit 2 (the check refuses to pass but has no\n"
        "replayed counterexample); MISSED = exit 0.\n\n")
tail = ""
sp = os.path.join(V, "seeded", "SUMMARY.md")
if os.path.exists(sp):
    tail = "\n" + open(sp).read()
s = s[:a] + head + table + tail
open(p, "w").write(s)
print("%d rows" % len(rows))
