#!/usr/bin/env python3-vt
"""Translator validation (Serval-style): concrete inputs - range boundaries, the literal values of
the repository's own tests and seeded random values - are pushed through (a) the real functions in
a native build of /repo's current tree and (b) the MIR->SMT encoding evaluated on the same inputs;
the results must agree.  usage: tools/validate_translator.py [N random per function]"""
import os, random, re, shutil, subprocess, sys, tempfile
V = os.path.dirname(os.path.dirname(os.path.abspath(__file__)))
sys.path.insert(0, os.path.join(V, "tools")); sys.path.insert(0, os.path.join(V, "harness"))
import z3
REPO = os.environ.get("VERIF_REPO", "/repo")
D = 86_400_000_000
DAY_MIN, DAY_MAX = -719162, 2932896
TS_MIN, TS_MAX = DAY_MIN * D, (DAY_MAX + 1) * D - 1
DT = 100_000_000 * D
YM = 178_000_000 * 12

def build(scratch):
    shutil.copytree(os.path.join(REPO, "src"), os.path.join(scratch, "src"))
    shutil.copy("/repo/Cargo.lock", scratch)
    t = open(os.path.join(REPO, "Cargo.toml")).read()
    t = re.sub(r"\[\[bench\]\][^\[]*", "", t) + '\n[workspace]\n\n[[example]]\nname = "eval"\npath = "eval_main.rs"\nrequired-features = ["oracle"]\n'
    open(os.path.join(scratch, "Cargo.toml"), "w").write(t)
    shutil.copy(os.path.join(V, "tools", "validate", "eval_main.rs"), scratch)
    e = dict(os.environ, CARGO_NET_OFFLINE="true")
    subprocess.check_call(["cargo", "build", "--offline", "--features", "oracle,serde", "--example", "eval", "--target-dir", os.path.join(scratch, "t")],
                          cwd=scratch, env=e, stdout=subprocess.DEVNULL, stderr=subprocess.DEVNULL)
    mir = os.path.join(scratch, "mir.txt")
    with open(mir, "w") as f:
        subprocess.check_call(["cargo", "+nightly", "rustc", "--offline", "--lib", "--features", "oracle,serde", "--target-dir", os.path.join(scratch, "tm"), "--",
                               "-Zunpretty=mir", "-Ztrim-diagnostic-paths=no", "-C", "debug-assertions=on", "-C", "overflow-checks=on"],
                              cwd=scratch, env=e, stdout=f, stderr=subprocess.DEVNULL)
    return os.path.join(scratch, "t", "debug", "examples", "eval"), mir

def flat(v):
    from mirsmt import Struct, Enum
    if isinstance(v, Struct):
        out = []
        for x in v.f:
            out += flat(x)
        return out
    if isinstance(v, Enum):
        return [v]
    return [v]

def main():
    n = int(sys.argv[1]) if len(sys.argv) > 1 else 200
    rnd = random.Random(int(os.environ.get("VERIF_SEED", "0") or 0))
    scratch = tempfile.mkdtemp(prefix="verif-validate-", dir=os.environ.get("VERIF_SCRATCH", "/var/tmp"))
    try:
        exe, mir = build(scratch)
        os.environ["VERIF_SRC"] = os.path.join(scratch, "src")
        import smt_specs
        from mirsmt import Engine, Struct, Enum
        E = Engine(open(mir).read(), enums=smt_specs.ENUMS)
        S = lambda v, name="": Struct([z3.IntVal(v)], name)
        def days(): return [DAY_MIN, DAY_MIN + 1, -1, 0, 1, 11016, 11017, DAY_MAX - 1, DAY_MAX, -141427, 730119] + [rnd.randint(DAY_MIN, DAY_MAX) for _ in range(n)]
        def tss(): return [TS_MIN, TS_MIN + 1, -D - 1, -D, -1, 0, 1, D - 1, D, TS_MAX - 1, TS_MAX, -1_000_000, -999_999] + [rnd.randint(TS_MIN, TS_MAX) for _ in range(n)]
        def tods(): return [0, 1, 999_999, 1_000_000, D // 2, D - 1] + [rnd.randint(0, D - 1) for _ in range(n)]
        def dts(): return [-DT, -DT + 1, -D, -1, 0, 1, D, DT - 1, DT] + [rnd.randint(-DT, DT) for _ in range(n)]
        def yms(): return [-YM, -13, -12, -1, 0, 1, 11, 12, YM] + [rnd.randint(-YM, YM) for _ in range(n)]
        cases = []
        for d in days():
            cases += [("date_extract", [d]), ("weekday", [d]), ("trunc_iso_year", [d]), ("round_week", [d])]
        for _ in range(n):
            cases.append(("date_from_ymd", [rnd.randint(-2, 10001), rnd.randint(0, 14), rnd.randint(0, 33)]))
            cases.append(("add_months", [rnd.randint(DAY_MIN, DAY_MAX), rnd.choice([rnd.randint(-40, 40), rnd.randint(-YM, YM), rnd.randint(-130000, 130000)])]))
        for u in tss():
            cases += [("ts_extract", [u]), ("od_from_ts", [u])]
        for t in tods():
            cases += [("time_extract", [t]), ("time_add", [t, rnd.choice(dts())])]
        for v in dts():
            cases.append(("dt_extract", [v]))
        for v in yms():
            cases.append(("ym_extract", [v]))
        inp = "\n".join("%s %s" % (f, " ".join(map(str, a))) for f, a in cases) + "\n"
        native = subprocess.run([exe], input=inp, capture_output=True, text=True).stdout.strip().split("\n")
        find = {
            "date_extract": lambda a: (E.find("extract", ["date::Date"]), [S(a[0])]),
            "weekday": lambda a: (E.find("day_of_week", ["date::Date"]), [S(a[0])]),
            "trunc_iso_year": lambda a: ([f for f in E.by_last["trunc_iso_year"] if f.name.startswith("date::")][0], [S(a[0])]),
            "round_week": lambda a: ([f for f in E.by_last["round_week"] if f.name.startswith("date::")][0], [S(a[0])]),
            "date_from_ymd": lambda a: (E.find("try_from_ymd", ["i32", "u32", "u32"]), [z3.IntVal(x) for x in a]),
            "add_months": lambda a: (E.find("add_interval_ym", ["date::Date", "interval::IntervalYM"]), [S(a[0]), S(a[1])]),
            "ts_extract": lambda a: (E.find("extract", ["timestamp::Timestamp"]), [S(a[0])]),
            "od_from_ts": lambda a: (E.find("from", ["timestamp::Timestamp"], "oracle::Date"), [S(a[0])]),
            "time_extract": lambda a: (E.find("extract", ["time::Time"]), [S(a[0])]),
            "time_add": lambda a: (E.find("add_interval_dt", ["time::Time", "interval::IntervalDT"]), [S(a[0]), S(a[1])]),
            "dt_extract": lambda a: (E.find("extract", ["interval::IntervalDT"]), [S(a[0])]),
            "ym_extract": lambda a: (E.find("extract", ["interval::IntervalYM"]), [S(a[0])]),
        }
        bad = 0
        for (fname, a), nat in zip(cases, native):
            fn, args = find[fname](a)
            outs = list(E.run(fn, args, []))
            rets = [o for o in outs if o[1][0] == "ret"]
            if len(rets) != 1:
                got = "panic-or-ambiguous(%d)" % len(outs)
            else:
                v = rets[0][1][1]
                if isinstance(v, Enum) and ("Ok" in v.p or "Err" in v.p):
                    dsc = z3.simplify(v.d).as_long()
                    vals = [dsc] + ([z3.simplify(x).as_long() for x in flat(v.p["Ok"][0])] if dsc == 0 else [])
                else:
                    vals = []
                    for x in flat(v):
                        x = x.d if isinstance(x, Enum) else x
                        vals.append(z3.simplify(x).as_long())
                got = " ".join(map(str, vals))
            if got != nat.strip():
                bad += 1
                if bad <= 10:
                    print("DISAGREE %s%s: native=%s encoding=%s" % (fname, a, nat, got))
        print("translator validation: %d concrete cases, %d disagreements" % (len(cases), bad))
        return 1 if bad else 0
    finally:
        shutil.rmtree(scratch, ignore_errors=True)
sys.exit(main())
