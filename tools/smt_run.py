#!/usr/bin/env python3-vt
"""Runs one SMT obligation: smt_run.py <mir-file> <spec-name> <out.json> [args...]

A spec (harness/smt_specs.py) drives the MIR symbolic executor over the crate's functions and
yields (path condition, post-condition, label) triples; each triple is one solver query
`pre /\\ path /\\ not post`, which must be unsat.  Every feasible panic path of the encoded
functions is a violation as well.  A model is written out as the values of the declared inputs
(in declaration order) so that the driver can replay it against the native build.
"""
import json
import os
import subprocess
import sys
import tempfile
import time

sys.path.insert(0, os.path.dirname(os.path.abspath(__file__)))
sys.path.insert(0, os.path.join(os.path.dirname(os.path.dirname(os.path.abspath(__file__))), "harness"))
import z3
import mirsmt
from mirsmt import Engine, Unsupported


def model_inputs(E, model):
    vals = []
    for name, ty, v in E.inputs:
        mv = model.eval(v, model_completion=True)
        if ty == "bool":
            b = z3.is_true(mv)
            vals.append({"name": name, "type": "bool", "value": b, "hex": "01" if b else "00"})
        else:
            iv = mv.as_long()
            w, signed = mirsmt.INT[ty]
            vals.append({"name": name, "type": ty, "value": iv,
                         "hex": (iv & ((1 << w) - 1)).to_bytes(w // 8, "little").hex()})
    return vals


def cvc5_agrees(E, pc, neg_post, timeout=60):
    """Second opinion on one query: the same assertions in SMT-LIB2 through cvc5."""
    s = z3.Solver()
    for c in E.pre:
        s.add(c)
    for c in pc:
        s.add(c)
    s.add(neg_post)
    txt = "(set-logic ALL)\n" + s.to_smt2().replace("(set-info :status unknown)", "")
    with tempfile.NamedTemporaryFile("w", suffix=".smt2", delete=False) as f:
        f.write(txt)
        path = f.name
    try:
        r = subprocess.run(["cvc5", "--lang", "smt2", "--tlimit=%d" % (timeout * 1000), path],
                           capture_output=True, text=True, timeout=timeout + 10)
        out = (r.stdout + r.stderr).strip().splitlines()
        if any("(error" in l for l in out):
            return "error"
        return out[0].strip() if out else "none"
    except Exception:
        return "timeout"
    finally:
        os.unlink(path)


def main():
    mir, spec_name, outp = sys.argv[1], sys.argv[2], sys.argv[3]
    args = [int(a) for a in sys.argv[4:]]
    import smt_specs
    spec = getattr(smt_specs, spec_name)
    t0 = time.time()
    res = {"status": "error", "queries": 0, "paths": 0, "solver_s": 0.0, "functions": [], "labels": [],
           "cvc5": {}, "detail": ""}
    try:
        E = Engine(open(mir).read(), enums=smt_specs.ENUMS)
        want_cvc5 = os.environ.get("VERIF_CVC5", "0") == "1"
        cex = None
        nq = 0
        labels = {}
        allow_panic = getattr(spec, "allow_panic", False)
        for item in spec(E, *args):
            pc, post, label = item
            if isinstance(post, str):
                if allow_panic:
                    continue
                ts = time.time()
                r = E.solver.check(*pc)
                res["solver_s"] += time.time() - ts
                nq += 1
                if r == z3.sat:
                    cex = {"label": "panic: " + label, "inputs": model_inputs(E, E.solver.model())}
                    break
                if r == z3.unknown:
                    raise Unsupported("solver unknown on panic path " + label)
                continue
            ts = time.time()
            neg = z3.Not(post)
            r = E.solver.check(*pc, neg)
            res["solver_s"] += time.time() - ts
            nq += 1
            labels[label] = labels.get(label, 0) + 1
            if r == z3.sat:
                model = E.solver.model()
                if E.hints:
                    # a counterexample inside the spec's replay hints (plain values that manifest through
                    # the public API) is preferred; any model of the query is a genuine counterexample
                    E.solver.set("timeout", 20000)
                    if E.solver.check(*pc, neg, *E.hints) == z3.sat:
                        model = E.solver.model()
                    E.solver.set("timeout", E.query_timeout_ms)
                cex = {"label": label, "inputs": model_inputs(E, model)}
                break
            if r == z3.unknown:
                raise Unsupported("solver answered unknown for " + label)
            if want_cvc5 and labels[label] <= 2:
                a = cvc5_agrees(E, pc, neg)
                res["cvc5"][label] = a
                if a == "sat":
                    raise Unsupported("cvc5 disagrees (sat) on " + label)
        res["queries"] = nq + E.stats["feasibility_queries"]
        res["post_queries"] = nq
        res["paths"] = E.stats["paths"]
        res["functions"] = sorted(E.stats["functions"])
        res["labels"] = labels
        res["inputs"] = [(n, t) for n, t, _ in E.inputs]
        if cex:
            res["status"] = "cex"
            res["cex"] = cex
        elif nq == 0:
            res["status"] = "error"
            res["detail"] = "spec produced no query (vacuous)"
        else:
            res["status"] = "proved"
    except Unsupported as e:
        res["status"] = "unsupported"
        res["detail"] = str(e)
    except Exception as e:  # translator bug: never a pass
        import traceback
        res["status"] = "error"
        res["detail"] = "%s: %s\n%s" % (type(e).__name__, e, traceback.format_exc()[-1500:])
    res["wall_s"] = round(time.time() - t0, 2)
    json.dump(res, open(outp, "w"), indent=1)


if __name__ == "__main__":
    main()
