#!/bin/sh
# development helper: run the quick check of each property in turn, one at a time
cd /verif
for p in "$@"; do
  s=$(date +%s)
  ./bin/check $p --tier quick > /var/tmp/logs/q-$p.log 2>&1
  rc=$?
  e=$(date +%s)
  echo "$p rc=$rc wall=$((e-s))s $(tail -n 1 /var/tmp/logs/q-$p.log)" >> /var/tmp/logs/summary.txt
done
